#!/usr/bin/env python3
"""Regenerates MANIFEST.json from vx/props.py (dev-time helper; the manifest is committed)."""
import json, os, sys
sys.path.insert(0, os.path.dirname(os.path.abspath(__file__)))
from vx.props import PROPS, MANIFEST_TEXT, NOT_APPLICABLE

ALL = [json.loads(l)['id'] for l in open(os.path.join(os.path.dirname(os.path.abspath(__file__)), 'properties.jsonl'))]
checks = []
for pid in sorted(PROPS):
    t = MANIFEST_TEXT[pid]
    checks.append(dict(
        property_id=pid,
        quick_cmd='./check %s --tier quick' % pid,
        thorough_cmd='./check %s --tier thorough' % pid,
        evidence_file='/verif/evidence/%s.json' % pid,
        replay_cmd_template='./check %s --replay {path}' % pid,
        engine='vx+verus' + ('+kani' if PROPS[pid].get('kani') else ''),
        level_claimed=dict(category=t.get('category', 'proof'), text=t['level'], design_ref=t['design_ref']),
        level_note=t['note'],
        technique=t['technique'],
    ))
m = dict(
    version=1,
    setup_cmd='python3 -c "import vx.main" && verus --version >/dev/null',
    hooks=dict(guard='none (no hooks: Verus works on text extracted from /repo on every run; Kani harness modules are appended to a scratch copy under cfg(kani) only)',
               enable='n/a — checks read /repo/src directly; the Kani part copies /repo to /var/tmp and appends #[cfg(kani)] modules there',
               baseline_off_cmd='cd /repo && cargo test --workspace --no-fail-fast --offline',
               source_commits=[], add_only=True),
    engines=[dict(name='vx+verus', path='/verif/vx', serves_properties=sorted(PROPS),
                  kind_free_text='mechanical extractor/annotator (Python) + Verus 0.2026.09.13 deductive verifier on the extracted real functions; contracts in /verif/contracts')],
    checks=checks,
    notes='Contract-based deductive verification of the real code. exit 0 = all obligations of the property discharged; exit 1 = a baseline obligation fails (VIOLATION line, replay file names the obligation); exit 2 = undecided (lost anchor / unsupported construct / resource limit), never an alarm, and only for the properties that own the affected function (it is re-emitted as a contract-only stub and the rest of the unit is still verified). When a function is isolated and the property has a witness finder, the bounded search on the real crate stands in for it: a replayed failing history is reported as a VIOLATION (obligation `<fn>::isolated(bounded stand-in)`), finding none leaves the run undecided; bounded parts are never counted as discharged. fix: commit 19039e0 in /repo repairs the C17 defect (see known_findings.json).',
    not_applicable=sorted([dict(property_id=k, reason=v) for k, v in NOT_APPLICABLE.items()] +
                          [dict(property_id=k, reason='not claimed yet: the contract unit for this property is planned (DESIGN.md §8) but not built/validated in the committed tree')
                           for k in ALL if k not in PROPS and k not in NOT_APPLICABLE], key=lambda d: d['property_id']),
)
json.dump(m, open(os.path.join(os.path.dirname(os.path.abspath(__file__)), 'MANIFEST.json'), 'w'), indent=1)
print('wrote MANIFEST.json with', len(checks), 'checks,', len(m['not_applicable']), 'not applicable')
