//! Witness finder for the allocator properties (C01, C02, C05-lite, C17).
//! Drives the REAL crate built from the current /repo through its public API over all
//! operation histories up to a depth bound and compares with the property statements
//! written as an executable oracle. It never decides pass/fail for a check: it runs only
//! after a proof obligation failed, to attach a concrete replayable history.
//!
//! usage: replay-alloc search <property> <depth> <seed>   -> prints JSON {found, history, message}
//!        replay-alloc run <property> <history-json>       -> replays one history, exit 1 if it violates
use specs::prelude::*;
use specs::world::EntitiesRes;
use std::collections::{BTreeMap, BTreeSet};
use specs::hibitset::BitSetLike;

/// component attached to every entity the harness creates: carries the position of its owner in `issued`
#[derive(Debug, Clone, Copy, PartialEq)]
struct Tag(usize);
impl Component for Tag { type Storage = VecStorage<Self>; }

#[derive(Clone, Debug, PartialEq)]
enum Op {
    CreateNow,
    CreateDeferred,
    CreateIterNow,
    BuilderDropNow,
    BuilderDropDeferred,
    DeleteNow(usize),
    DeleteDeferred(usize),
    DeleteBatch(usize, usize),
    Maintain,
    DeleteAll,
}

impl Op {
    fn to_json(&self) -> String {
        match self {
            Op::CreateNow => "\"create_now\"".into(),
            Op::CreateDeferred => "\"create_deferred\"".into(),
            Op::CreateIterNow => "\"create_iter_now\"".into(),
            Op::BuilderDropNow => "\"builder_drop_now\"".into(),
            Op::BuilderDropDeferred => "\"builder_drop_deferred\"".into(),
            Op::DeleteNow(a) => format!("[\"delete_now\",{}]", a),
            Op::DeleteDeferred(a) => format!("[\"delete_deferred\",{}]", a),
            Op::DeleteBatch(a, b) => format!("[\"delete_batch\",{},{}]", a, b),
            Op::Maintain => "\"maintain\"".into(),
            Op::DeleteAll => "\"delete_all\"".into(),
        }
    }
    fn parse(tok: &str) -> Option<Op> {
        let t = tok.trim();
        let t = t.trim_matches(|c| c == '[' || c == ']');
        let parts: Vec<&str> = t.split(',').map(|s| s.trim().trim_matches('"')).collect();
        Some(match parts[0] {
            "create_now" => Op::CreateNow,
            "create_deferred" => Op::CreateDeferred,
            "create_iter_now" => Op::CreateIterNow,
            "builder_drop_now" => Op::BuilderDropNow,
            "builder_drop_deferred" => Op::BuilderDropDeferred,
            "delete_now" => Op::DeleteNow(parts[1].parse().ok()?),
            "delete_deferred" => Op::DeleteDeferred(parts[1].parse().ok()?),
            "delete_batch" => Op::DeleteBatch(parts[1].parse().ok()?, parts[2].parse().ok()?),
            "maintain" => Op::Maintain,
            "delete_all" => Op::DeleteAll,
            _ => return None,
        })
    }
}

/// executable oracle: the timeline the properties describe, per issued handle
#[derive(Default)]
struct Model {
    issued: Vec<Entity>,              // every handle ever returned (incl. by dropped builders)
    alive: BTreeSet<usize>,           // positions in `issued` that are not yet dead
    pending: BTreeSet<usize>,         // deletion requested, takes effect at next maintain
    peak: usize,                      // largest number of simultaneously not-yet-dead entities so far
}

struct Run {
    world: World,
    model: Model,
    handles: Vec<usize>, // positions of handles the history may refer to (those returned to the caller)
}

fn fail(prop: &str, which: &str, msg: String) -> Result<(), (String, String)> {
    if prop == which || prop == "any" { Err((which.to_string(), msg)) } else { Ok(()) }
}

impl Run {
    fn new() -> Run {
        let mut world = World::new();
        world.register::<Tag>();
        Run { world, model: Model::default(), handles: vec![] }
    }

    fn on_create(&mut self, prop: &str, e: Entity, visible: bool) -> Result<(), (String, String)> {
        // C01: differs from every handle returned earlier
        if self.model.issued.contains(&e) {
            fail(prop, "C01", format!("creation returned {:?} which was returned before", e))?;
        }
        // C01: no two not-yet-dead entities share an index
        for &p in &self.model.alive {
            if self.model.issued[p].id() == e.id() {
                fail(prop, "C01", format!("new entity {:?} shares its index with not-yet-dead {:?}", e, self.model.issued[p]))?;
            }
        }
        // C17: index < largest number of simultaneously not-yet-dead entities so far (counting this one)
        let pos = self.model.issued.len();
        self.model.issued.push(e);
        self.model.alive.insert(pos);
        self.model.peak = self.model.peak.max(self.model.alive.len());
        if (e.id() as usize) >= self.model.peak {
            fail(prop, "C17", format!("index {} handed out although at most {} entities were ever simultaneously not yet dead", e.id(), self.model.peak))?;
        }
        if visible { self.handles.push(pos); }
        // C05: a newly created entity (also one reusing an index) has no component until one is inserted
        {
            let mut st = self.world.write_storage::<Tag>();
            if st.mask().contains(e.id()) {
                let got = st.get(e).cloned();
                drop(st);
                fail(prop, "C05", format!("new entity {:?} already has a component {:?} (raw mask has its index)", e, got))?;
            } else {
                st.insert(e, Tag(pos)).map_err(|_| ("C02".to_string(), format!("insert for fresh entity {:?} refused", e)))?;
            }
        }
        Ok(())
    }

    fn check_state(&mut self, prop: &str) -> Result<(), (String, String)> {
        // C02: is_alive matches the timeline for every handle ever issued
        let ents = self.world.entities();
        for (p, e) in self.model.issued.iter().enumerate() {
            let want = self.model.alive.contains(&p);
            let got = ents.is_alive(*e);
            if want != got {
                drop(ents);
                return fail(prop, "C02", format!("is_alive({:?}) = {} but the timeline says {}", e, got, want));
            }
        }
        // C02: the entities join yields exactly the alive entities, each with its current handle
        let joined: BTreeSet<(u32, i32)> = (&*ents).join().map(|e| (e.id(), e.gen().id())).collect();
        let want: BTreeSet<(u32, i32)> = self.model.alive.iter().map(|&p| (self.model.issued[p].id(), self.model.issued[p].gen().id())).collect();
        drop(ents);
        if joined != want {
            return fail(prop, "C02", format!("entities join yields {:?}, timeline says {:?}", joined, want));
        }
        // C05: the storage holds a component exactly for the entities that are not yet dead, each its own
        let st = self.world.read_storage::<Tag>();
        let have: BTreeSet<u32> = st.mask().iter().collect();
        let want_idx: BTreeSet<u32> = self.model.alive.iter().map(|&p| self.model.issued[p].id()).collect();
        if have != want_idx {
            let msg = format!("storage mask holds indices {:?} but the not-yet-dead entities are at {:?}", have, want_idx);
            drop(st);
            return fail(prop, "C05", msg);
        }
        for &p in &self.model.alive {
            let e = self.model.issued[p];
            if st.get(e) != Some(&Tag(p)) {
                let msg = format!("entity {:?} reads component {:?}, expected its own Tag({})", e, st.get(e), p);
                drop(st);
                return fail(prop, "C05", msg);
            }
        }
        Ok(())
    }

    fn step(&mut self, prop: &str, op: &Op) -> Result<(), (String, String)> {
        match op {
            Op::CreateNow => { let e = self.world.create_entity().build(); self.on_create(prop, e, true)?; }
            Op::CreateIterNow => { let e = self.world.create_iter().next().unwrap(); self.on_create(prop, e, true)?; }
            Op::CreateDeferred => { let e = self.world.entities().create(); self.on_create(prop, e, true)?; }
            Op::BuilderDropNow => {
                let e = { let b = self.world.create_entity(); b.entity };
                self.on_create(prop, e, false)?;
                let pos = self.model.issued.len() - 1;
                self.model.pending.insert(pos); // EntityBuilder::drop deletes through the shared resource
            }
            Op::BuilderDropDeferred => {
                let e = { let ents = self.world.entities(); let b = ents.build_entity(); b.entity };
                self.on_create(prop, e, false)?;
                let pos = self.model.issued.len() - 1;
                self.model.pending.insert(pos);
            }
            Op::DeleteNow(h) => {
                let pos = self.handles[*h];
                let e = self.model.issued[pos];
                let want_ok = self.model.alive.contains(&pos);
                let r = self.world.delete_entity(e);
                if r.is_ok() != want_ok {
                    fail(prop, "C02", format!("delete_entity({:?}) returned {:?}, timeline says alive={}", e, r, want_ok))?;
                }
                if want_ok { self.model.alive.remove(&pos); self.model.pending.remove(&pos); }
            }
            Op::DeleteDeferred(h) => {
                let pos = self.handles[*h];
                let e = self.model.issued[pos];
                let want_ok = self.model.alive.contains(&pos);
                let r = self.world.entities().delete(e);
                if r.is_ok() != want_ok {
                    fail(prop, "C02", format!("Entities::delete({:?}) returned {:?}, timeline says alive={}", e, r, want_ok))?;
                }
                if want_ok { self.model.pending.insert(pos); }
            }
            Op::DeleteBatch(a, b) => {
                let pa = self.handles[*a]; let pb = self.handles[*b];
                let batch = [self.model.issued[pa], self.model.issued[pb]];
                // expected: stop at the first handle that is dead when its turn comes
                let mut alive = self.model.alive.clone();
                let mut stop = 2usize;
                for (k, p) in [pa, pb].iter().enumerate() {
                    if alive.contains(p) { alive.remove(p); } else { stop = k; break; }
                }
                let r = self.world.delete_entities(&batch);
                let got = match &r { Ok(()) => 2, Err((_, k)) => *k };
                if got != stop {
                    fail(prop, "C02", format!("delete_entities({:?}) stopped at {} but the timeline says {}", batch, got, stop))?;
                }
                for p in [pa, pb].iter().take(stop) { self.model.alive.remove(p); self.model.pending.remove(p); }
            }
            Op::Maintain => {
                self.world.maintain();
                let pend: Vec<usize> = self.model.pending.iter().cloned().collect();
                for p in pend { self.model.alive.remove(&p); }
                self.model.pending.clear();
            }
            Op::DeleteAll => {
                self.world.delete_all();
                self.model.alive.clear();
                self.model.pending.clear();
            }
        }
        self.check_state(prop)
    }
}

fn ops_for(nhandles: usize) -> Vec<Op> {
    let mut v = vec![Op::CreateNow, Op::CreateDeferred, Op::Maintain, Op::BuilderDropNow, Op::BuilderDropDeferred, Op::DeleteAll, Op::CreateIterNow];
    for a in 0..nhandles { v.push(Op::DeleteNow(a)); v.push(Op::DeleteDeferred(a)); }
    for a in 0..nhandles { for b in 0..nhandles { v.push(Op::DeleteBatch(a, b)); } }
    v
}

fn replay(prop: &str, hist: &[Op]) -> Result<(), (usize, String, String)> {
    let mut run = Run::new();
    for (k, op) in hist.iter().enumerate() {
        let r = std::panic::catch_unwind(std::panic::AssertUnwindSafe(|| run.step(prop, op)));
        match r {
            Ok(Ok(())) => {}
            Ok(Err((which, msg))) => return Err((k, which, msg)),
            Err(_) => return Err((k, "panic".into(), "the real crate panicked".into())),
        }
    }
    Ok(())
}

struct Search<'a> { prop: &'a str, max_handles: usize, count: u64, seed: u64 }

impl<'a> Search<'a> {
    fn dfs(&mut self, hist: &mut Vec<Op>, depth: usize) -> Option<(Vec<Op>, String, String)> {
        // number of visible handles after hist
        let nh = hist.iter().filter(|o| matches!(o, Op::CreateNow | Op::CreateDeferred | Op::CreateIterNow)).count();
        let mut ops = ops_for(nh.min(self.max_handles));
        if nh >= self.max_handles { ops.retain(|o| !matches!(o, Op::CreateIterNow)); }
        // seed only rotates the order in which operations are tried
        let n = ops.len();
        ops.rotate_left((self.seed as usize) % n);
        for op in ops {
            hist.push(op);
            self.count += 1;
            match replay(self.prop, hist) {
                Err((_, which, msg)) => { return Some((hist.clone(), which, msg)); }
                Ok(()) => {
                    if depth > 1 {
                        if let Some(f) = self.dfs(hist, depth - 1) { return Some(f); }
                    }
                }
            }
            hist.pop();
        }
        None
    }
}

fn hist_json(h: &[Op]) -> String {
    format!("[{}]", h.iter().map(|o| o.to_json()).collect::<Vec<_>>().join(","))
}

fn parse_hist(s: &str) -> Vec<Op> {
    // split top-level elements of a JSON array of strings / small arrays
    let s = s.trim();
    let inner = &s[1..s.len() - 1];
    let mut out = vec![]; let mut depth = 0; let mut cur = String::new();
    for ch in inner.chars() {
        match ch {
            '[' => { depth += 1; cur.push(ch); }
            ']' => { depth -= 1; cur.push(ch); }
            ',' if depth == 0 => { if let Some(o) = Op::parse(&cur) { out.push(o); } cur.clear(); }
            _ => cur.push(ch),
        }
    }
    if !cur.trim().is_empty() { if let Some(o) = Op::parse(&cur) { out.push(o); } }
    out
}

fn main() {
    std::panic::set_hook(Box::new(|_| {}));
    let args: Vec<String> = std::env::args().collect();
    let _ = (BTreeMap::<u8, u8>::new(), std::mem::size_of::<EntitiesRes>());
    match args.get(1).map(|s| s.as_str()) {
        Some("search") => {
            let prop = args[2].clone();
            let depth: usize = args[3].parse().unwrap();
            let seed: u64 = args.get(4).and_then(|s| s.parse().ok()).unwrap_or(0);
            let mut found = None; let mut total = 0u64;
            for d in 1..=depth {
                let mut s = Search { prop: &prop, max_handles: 3, count: 0, seed };
                let r = s.dfs(&mut vec![], d);
                total += s.count;
                if r.is_some() { found = r; break; }
            }
            match found {
                Some((h, which, msg)) => println!("{{\"found\":true,\"property\":\"{}\",\"history\":{},\"message\":{:?},\"histories_tried\":{}}}", which, hist_json(&h), msg, total),
                None => println!("{{\"found\":false,\"histories_tried\":{},\"depth\":{}}}", total, depth),
            }
        }
        Some("run") => {
            let prop = args[2].clone();
            let h = parse_hist(&args[3]);
            match replay(&prop, &h) {
                Ok(()) => { println!("{{\"violates\":false}}"); }
                Err((k, which, msg)) => { println!("{{\"violates\":true,\"property\":\"{}\",\"step\":{},\"message\":{:?}}}", which, k, msg); std::process::exit(1); }
            }
        }
        _ => { eprintln!("usage: search <prop> <depth> <seed> | run <prop> <history-json>"); std::process::exit(2); }
    }
}
