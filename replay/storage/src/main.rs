//! Witness finder for the storage-layer properties (C03, C04, C12, C13).
//! Drives the REAL crate built from the current /repo through its public API over all operation histories up to
//! a depth bound, for each storage kind, and compares with a plain map + aliveness timeline + expected event list.
//! It never decides pass/fail for a check: it only attaches a concrete replayable history to a failed obligation.
//!
//! usage: replay-storage search <property|any> <depth> <seed>   -> JSON {found, kind, history, message}
//!        replay-storage run <property|any> <kind> <history-json>
use specs::prelude::*;
use specs::storage::{BTreeStorage, DefaultVecStorage, DerefFlaggedStorage, FlaggedStorage, GenericWriteStorage, HashMapStorage, ComponentEvent};
use std::collections::BTreeMap;

macro_rules! comp {
    ($name:ident, $st:ty) => {
        #[derive(Debug, Clone, Copy, PartialEq, Default)]
        struct $name(u8);
        impl Component for $name { type Storage = $st; }
        impl From<u8> for $name { fn from(v: u8) -> Self { $name(v) } }
        impl Val for $name { fn val(&self) -> u8 { self.0 } fn set(&mut self, v: u8) { self.0 = v; } }
    };
}
trait Val { fn val(&self) -> u8; fn set(&mut self, v: u8); }
comp!(CVec, VecStorage<Self>);
comp!(CDense, DenseVecStorage<Self>);
comp!(CDef, DefaultVecStorage<Self>);
comp!(CHash, HashMapStorage<Self>);
comp!(CBTree, BTreeStorage<Self>);
comp!(CFlag, FlaggedStorage<Self, DenseVecStorage<Self>>);
comp!(CDeref, DerefFlaggedStorage<Self, VecStorage<Self>>);

#[derive(Clone, Debug, PartialEq)]
enum Op { Create, CreateDeferred, Delete(usize), Maintain, Insert(usize, u8), Remove(usize), Get(usize), GetMut(usize, u8),
          EntryOrInsert(usize, u8), GetMutOrDefault(usize), RestrictOther(usize, usize), RestrictReadOther(usize, usize), RestrictOtherMut(usize, usize, u8), LendGet(usize), Drain, Clear, DeleteDeferred(usize), JoinMut }

impl Op {
    fn json(&self) -> String {
        match self {
            Op::Create => "\"create\"".into(), Op::CreateDeferred => "\"create_deferred\"".into(), Op::Maintain => "\"maintain\"".into(),
            Op::Drain => "\"drain\"".into(), Op::Clear => "\"clear\"".into(), Op::JoinMut => "\"join_mut\"".into(),
            Op::DeleteDeferred(a) => format!("[\"delete_deferred\",{}]", a),
            Op::Delete(a) => format!("[\"delete\",{}]", a), Op::Remove(a) => format!("[\"remove\",{}]", a), Op::Get(a) => format!("[\"get\",{}]", a),
            Op::GetMutOrDefault(a) => format!("[\"get_mut_or_default\",{}]", a), Op::LendGet(a) => format!("[\"lend_get\",{}]", a),
            Op::Insert(a, v) => format!("[\"insert\",{},{}]", a, v), Op::GetMut(a, v) => format!("[\"get_mut\",{},{}]", a, v),
            Op::EntryOrInsert(a, v) => format!("[\"entry_or_insert\",{},{}]", a, v),
            Op::RestrictOther(a, b) => format!("[\"restrict_other\",{},{}]", a, b),
            Op::RestrictReadOther(a, b) => format!("[\"restrict_read_other\",{},{}]", a, b),
            Op::RestrictOtherMut(a, b, v) => format!("[\"restrict_other_mut\",{},{},{}]", a, b, v),
        }
    }
    fn parse(tok: &str) -> Option<Op> {
        let t = tok.trim().trim_matches(|c| c == '[' || c == ']');
        let p: Vec<&str> = t.split(',').map(|s| s.trim().trim_matches('"')).collect();
        let n = |i: usize| p.get(i).and_then(|s| s.parse::<usize>().ok());
        Some(match p[0] {
            "create" => Op::Create, "create_deferred" => Op::CreateDeferred, "maintain" => Op::Maintain, "drain" => Op::Drain, "clear" => Op::Clear, "join_mut" => Op::JoinMut, "delete_deferred" => Op::DeleteDeferred(n(1)?),
            "delete" => Op::Delete(n(1)?), "remove" => Op::Remove(n(1)?), "get" => Op::Get(n(1)?), "get_mut_or_default" => Op::GetMutOrDefault(n(1)?),
            "lend_get" => Op::LendGet(n(1)?), "insert" => Op::Insert(n(1)?, n(2)? as u8), "get_mut" => Op::GetMut(n(1)?, n(2)? as u8),
            "entry_or_insert" => Op::EntryOrInsert(n(1)?, n(2)? as u8), "restrict_other" => Op::RestrictOther(n(1)?, n(2)?),
            "restrict_read_other" => Op::RestrictReadOther(n(1)?, n(2)?),
            "restrict_other_mut" => Op::RestrictOtherMut(n(1)?, n(2)?, n(3)? as u8),
            _ => return None,
        })
    }
}

struct Run<C: Component> {
    world: World,
    handles: Vec<Entity>,
    alive: Vec<bool>,
    pending: Vec<usize>,               // handles deleted through the shared resource, dying at the next maintain
    model: BTreeMap<usize, u8>,        // handle position -> component value (only for not-yet-dead handles)
    expect_events: Vec<ComponentEvent>,
    reader: Option<ReaderId<ComponentEvent>>,
    seen: Vec<ComponentEvent>,
    _c: std::marker::PhantomData<C>,
}

type R = Result<(), (String, String)>;
fn fail(prop: &str, which: &str, msg: String) -> R { if prop == which || prop == "any" { Err((which.into(), msg)) } else { Ok(()) } }

trait Kind: Component + From<u8> + Val + Default + std::fmt::Debug + Copy + PartialEq + Send + Sync {
    const NAME: &'static str;
    const TRACKED: u8; // 0 none, 1 immediate, 2 deferred
    fn reader(_w: &mut World) -> Option<ReaderId<ComponentEvent>> { None }
    fn drain_events(_w: &World, _r: &mut ReaderId<ComponentEvent>) -> Vec<ComponentEvent> { vec![] }
    /// the non-lending mutable join `(&entities, &mut storage).join()` (None for kinds without SharedGetMutStorage)
    fn join_mut(_w: &World) -> Option<Vec<(u32, i32, u8)>> { None }
}
fn join_mut_of<C: Component + Val>(w: &World) -> Vec<(u32, i32, u8)> where C::Storage: specs::storage::SharedGetMutStorage<C> {
    let ents = w.entities();
    let mut st = w.write_storage::<C>();
    let v = (&ents, &mut st).join().map(|(e, c)| (e.id(), e.gen().id(), c.val())).collect();
    v
}
macro_rules! kind { ($t:ty, $n:expr, 0) => { impl Kind for $t { const NAME: &'static str = $n; const TRACKED: u8 = 0;
        fn join_mut(w: &World) -> Option<Vec<(u32, i32, u8)>> { Some(join_mut_of::<$t>(w)) } } };
    ($t:ty, $n:expr, 1) => { impl Kind for $t { const NAME: &'static str = $n; const TRACKED: u8 = 1;
        fn join_mut(w: &World) -> Option<Vec<(u32, i32, u8)>> { Some(join_mut_of::<$t>(w)) }
        fn reader(w: &mut World) -> Option<ReaderId<ComponentEvent>> { Some(w.write_storage::<$t>().register_reader()) }
        fn drain_events(w: &World, r: &mut ReaderId<ComponentEvent>) -> Vec<ComponentEvent> { w.read_storage::<$t>().channel().read(r).cloned().collect() } } };
    ($t:ty, $n:expr, $tr:expr) => { impl Kind for $t { const NAME: &'static str = $n; const TRACKED: u8 = $tr;
        fn reader(w: &mut World) -> Option<ReaderId<ComponentEvent>> { Some(w.write_storage::<$t>().register_reader()) }
        fn drain_events(w: &World, r: &mut ReaderId<ComponentEvent>) -> Vec<ComponentEvent> { w.read_storage::<$t>().channel().read(r).cloned().collect() } } }; }
kind!(CVec, "vec", 0); kind!(CDense, "dense", 0); kind!(CDef, "default_vec", 0); kind!(CHash, "hash", 0); kind!(CBTree, "btree", 0);
kind!(CFlag, "flagged", 1); kind!(CDeref, "deref_flagged", 2);

fn gmd<'a, W: GenericWriteStorage>(mut w: W, e: Entity) -> Option<u8> where W::Component: Default + Val {
    w.get_mut_or_default(e).map(|mut c| { use specs::storage::AccessMut; c.access_mut().val() })
}

impl<C: Kind> Run<C> where C::Storage: Default {
    fn new() -> Self {
        let mut world = World::new();
        world.register::<C>();
        let reader = C::reader(&mut world);
        Run { world, handles: vec![], alive: vec![], pending: vec![], model: BTreeMap::new(), expect_events: vec![], reader, seen: vec![], _c: Default::default() }
    }
    fn live(&self, h: usize) -> bool { self.alive[h] }
    fn ev(&mut self, e: ComponentEvent) { if C::TRACKED != 0 { self.expect_events.push(e); } }

    fn step(&mut self, prop: &str, op: &Op) -> R {
        match *op {
            Op::Create => { let e = self.world.create_entity().build(); self.handles.push(e); self.alive.push(true); }
            Op::CreateDeferred => { let e = self.world.entities().create(); self.handles.push(e); self.alive.push(true); }
            Op::Delete(h) => {
                let e = self.handles[h];
                let ok = self.world.delete_entity(e).is_ok();
                if ok != self.live(h) { fail(prop, "C02", format!("delete_entity({:?}) ok={} but alive={}", e, ok, self.live(h)))?; }
                if self.live(h) { self.alive[h] = false; if self.model.remove(&h).is_some() { self.ev(ComponentEvent::Removed(e.id())); } }
            }
            Op::Maintain => {
                self.world.maintain();
                // deferred deletions take effect now; their components are purged in ascending index order
                let mut p: Vec<usize> = std::mem::take(&mut self.pending);
                p.sort_by_key(|h| self.handles[*h].id()); p.dedup();
                for h in p {
                    if self.alive[h] { self.alive[h] = false; if self.model.remove(&h).is_some() { let id = self.handles[h].id(); self.ev(ComponentEvent::Removed(id)); } }
                }
            }
            Op::DeleteDeferred(h) => {
                let e = self.handles[h];
                let ok = self.world.entities().delete(e).is_ok();
                if ok != self.live(h) { fail(prop, "C02", format!("Entities::delete({:?}) ok={} but alive={}", e, ok, self.live(h)))?; }
                if self.live(h) { self.pending.push(h); }
            }
            Op::JoinMut => {
                // the non-lending mutable join: exactly the live entities that have the component, ascending, each once
                let got = match C::join_mut(&self.world) { Some(g) => g, None => return self.check(prop) };
                let mut want: Vec<(u32, i32, u8)> = self.model.iter().filter(|(h, _)| self.alive[**h]).map(|(h, v)| (self.handles[*h].id(), self.handles[*h].gen().id(), *v)).collect();
                want.sort();
                if got != want { fail(prop, "C06", format!("(&entities, &mut storage).join() visited {:?}, expected {:?}", got, want))?; }
                // a mutable fetch through the immediate wrapper reports a modification per visited item; the deferred wrapper only on deref_mut
                if C::TRACKED == 1 { for (id, _, _) in want { self.ev(ComponentEvent::Modified(id)); } }
            }
            Op::Insert(h, v) => {
                let e = self.handles[h];
                let r = self.world.write_storage::<C>().insert(e, C::from(v));
                if !self.live(h) {
                    if r.is_ok() { fail(prop, "C03", format!("insert through dead handle {:?} accepted", e))?; }
                } else {
                    let want = self.model.get(&h).cloned();
                    match r { Ok(old) => if old.map(|c| c.val()) != want { fail(prop, "C04", format!("insert({:?}) returned {:?}, map says {:?}", e, old, want))?; },
                              Err(_) => fail(prop, "C04", format!("insert for live {:?} refused", e))?, }
                    if want.is_some() { self.ev(ComponentEvent::Modified(e.id())); } else { self.ev(ComponentEvent::Inserted(e.id())); }
                    self.model.insert(h, v);
                }
            }
            Op::Remove(h) => {
                let e = self.handles[h];
                let r = self.world.write_storage::<C>().remove(e).map(|c| c.val());
                let want = if self.live(h) { self.model.get(&h).cloned() } else { None };
                if r != want { fail(prop, if self.live(h) { "C04" } else { "C03" }, format!("remove({:?}) returned {:?}, expected {:?}", e, r, want))?; }
                if want.is_some() { self.model.remove(&h); self.ev(ComponentEvent::Removed(e.id())); }
            }
            Op::Get(h) => {
                let e = self.handles[h];
                let st = self.world.read_storage::<C>();
                let r = st.get(e).map(|c| c.val());
                let c = st.contains(e);
                drop(st);
                let want = if self.live(h) { self.model.get(&h).cloned() } else { None };
                if r != want || c != want.is_some() { fail(prop, if self.live(h) { "C04" } else { "C03" }, format!("get({:?}) = {:?} / contains = {}, expected {:?}", e, r, c, want))?; }
            }
            Op::GetMut(h, v) => {
                let e = self.handles[h];
                let mut st = self.world.write_storage::<C>();
                let want = if self.live(h) { self.model.get(&h).cloned() } else { None };
                let got = match st.get_mut(e) { Some(mut c) => { use specs::storage::AccessMut; let old = c.val(); c.access_mut().set(v); Some(old) } None => None };
                drop(st);
                if got != want { fail(prop, if self.live(h) { "C04" } else { "C03" }, format!("get_mut({:?}) saw {:?}, expected {:?}", e, got, want))?; }
                if want.is_some() { self.model.insert(h, v); self.ev(ComponentEvent::Modified(e.id())); }
            }
            Op::EntryOrInsert(h, v) => {
                let e = self.handles[h];
                let mut st = self.world.write_storage::<C>();
                let r = match st.entry(e) { Ok(en) => { let c = en.or_insert(C::from(v)); Some(c.val()) } Err(_) => None };
                drop(st);
                if !self.live(h) { if r.is_some() { fail(prop, "C03", format!("entry({:?}) handed out for a dead handle", e))?; } }
                else {
                    let want = self.model.get(&h).cloned().unwrap_or(v);
                    if r != Some(want) { fail(prop, "C04", format!("entry({:?}).or_insert gave {:?}, expected {:?}", e, r, want))?; }
                    // the returned access is only read here: the immediate wrapper flags at get_mut, the deferred one not at all
                    if !self.model.contains_key(&h) { self.ev(ComponentEvent::Inserted(e.id())); }
                    if C::TRACKED == 1 { self.ev(ComponentEvent::Modified(e.id())); }
                    self.model.insert(h, want);
                }
            }
            Op::GetMutOrDefault(h) => {
                let e = self.handles[h];
                let mut st = self.world.write_storage::<C>();
                let r = gmd(&mut st, e);
                drop(st);
                if !self.live(h) { if r.is_some() { fail(prop, "C03", format!("get_mut_or_default({:?}) handed out a component for a dead handle", e))?; } }
                else {
                    let want = self.model.get(&h).cloned().unwrap_or(0);
                    if r != Some(want) { fail(prop, "C04", format!("get_mut_or_default({:?}) gave {:?}, expected {:?}", e, r, want))?; }
                    if !self.model.contains_key(&h) { self.ev(ComponentEvent::Inserted(e.id())); }
                    self.ev(ComponentEvent::Modified(e.id()));
                    self.model.insert(h, want);
                }
            }
            Op::RestrictOther(at, h) | Op::RestrictOtherMut(at, h, _) => {
                // visit the item of handle `at` through a restricted lending join and look up handle `h` from there
                let ea = self.handles[at]; let e = self.handles[h];
                if !(self.live(at) && self.model.contains_key(&at)) { return self.check(prop); }
                let want = if self.live(h) { self.model.get(&h).cloned() } else { None };
                let ents = self.world.entities();
                let mut st = self.world.write_storage::<C>();
                let mut got: Option<Option<u8>> = None;
                let mut wrote = false;
                {
                    let mut rs = st.restrict_mut();
                    let mut it = (&*ents, &mut rs).lend_join();
                    while let Some((ent, mut item)) = it.next() {
                        if ent == ea {
                            match *op {
                                Op::RestrictOther(..) => { got = Some(item.get_other(e).map(|c| c.val())); }
                                Op::RestrictOtherMut(_, _, v) => {
                                    got = Some(match item.get_other_mut(e) { Some(mut c) => { use specs::storage::AccessMut; let o = c.val(); c.access_mut().set(v); wrote = true; Some(o) } None => None });
                                }
                                _ => {}
                            }
                        }
                    }
                }
                drop(st); drop(ents);
                if let Some(g) = got {
                    if g != want { fail(prop, if self.live(h) { "C13" } else { "C03" }, format!("restricted lookup of {:?} while visiting {:?} gave {:?}, expected {:?}", e, ea, g, want))?; }
                    if let Op::RestrictOtherMut(_, _, v) = *op { if wrote { self.model.insert(h, v); self.ev(ComponentEvent::Modified(e.id())); } }
                }
            }
            Op::RestrictReadOther(at, h) => {
                // read-only restricted view, plain join: look up handle `h` from the item of handle `at`
                let ea = self.handles[at]; let e = self.handles[h];
                if !(self.live(at) && self.model.contains_key(&at)) { return self.check(prop); }
                let want = if self.live(h) { self.model.get(&h).cloned() } else { None };
                let ents = self.world.entities();
                let st = self.world.read_storage::<C>();
                let mut got: Option<Option<u8>> = None;
                {
                    let rs = st.restrict();
                    for (ent, item) in (&*ents, &rs).join() {
                        if ent == ea { got = Some(item.get_other(e).map(|c| c.val())); }
                    }
                }
                drop(st); drop(ents);
                if let Some(g) = got {
                    if g != want { fail(prop, if self.live(h) { "C13" } else { "C03" }, format!("read-only restricted lookup of {:?} while visiting {:?} gave {:?}, expected {:?}", e, ea, g, want))?; }
                }
            }
            Op::LendGet(h) => {
                let e = self.handles[h];
                let ents = self.world.entities();
                let st = self.world.read_storage::<C>();
                let mut it = (&st,).lend_join();
                let r = it.get(e, &ents).map(|(c,)| c.val());
                drop(it); drop(st); drop(ents);
                let want = if self.live(h) { self.model.get(&h).cloned() } else { None };
                if r != want { fail(prop, if self.live(h) { "C06" } else { "C03" }, format!("lend_join().get({:?}) = {:?}, expected {:?}", e, r, want))?; }
            }
            Op::Drain => {
                let mut st = self.world.write_storage::<C>();
                let mut got: Vec<u8> = st.drain().join().map(|c| c.val()).collect();
                drop(st);
                let mut want: Vec<(u32, usize, u8)> = self.model.iter().map(|(h, v)| (self.handles[*h].id(), *h, *v)).collect();
                want.sort();
                let wantv: Vec<u8> = want.iter().map(|x| x.2).collect();
                if got != wantv { got.sort(); fail(prop, "C04", format!("drain yielded {:?}, expected {:?}", got, wantv))?; }
                for (id, _, _) in want { self.ev(ComponentEvent::Removed(id)); }
                self.model.clear();
            }
            Op::Clear => {
                // bulk clear emits no events by design: after it the C12 membership replay is not expected to hold
                self.world.write_storage::<C>().clear();
                self.model.clear();
                self.reader = None;
            }
        }
        self.check(prop)
    }

    fn check(&mut self, prop: &str) -> R {
        // C04: membership / count / lookups equal the map
        let st = self.world.read_storage::<C>();
        let want_n = self.model.len();
        if st.count() != want_n || st.is_empty() != (want_n == 0) {
            let m = format!("count() = {}, is_empty() = {}, map has {}", st.count(), st.is_empty(), want_n);
            drop(st); return fail(prop, "C04", m);
        }
        for (h, v) in self.model.clone() {
            let e = self.handles[h];
            if st.get(e).map(|c| c.val()) != Some(v) { let m = format!("get({:?}) = {:?}, map says {}", e, st.get(e), v); drop(st); return fail(prop, "C04", m); }
        }
        for (h, e) in self.handles.clone().iter().enumerate() {
            if !self.alive[h] && st.get(*e).is_some() { let m = format!("dead handle {:?} reads {:?}", e, st.get(*e)); drop(st); return fail(prop, "C03", m); }
        }
        // C06: a join over (entities, storage) visits exactly the live entities that have the component, once each, in ascending index
        // order, with that entity's current handle and value — through the plain iterator, through `lend_join().for_each`, and the
        // entries() walk agrees on which slots are occupied
        {
            let ents = self.world.entities();
            let mut want: Vec<(u32, i32, u8)> = self.model.iter().filter(|(h, _)| self.alive[**h]).map(|(h, v)| (self.handles[*h].id(), self.handles[*h].gen().id(), *v)).collect();
            want.sort();
            let got: Vec<(u32, i32, u8)> = (&ents, &st).join().map(|(e, c)| (e.id(), e.gen().id(), c.val())).collect();
            if got != want { let m = format!("(&entities, &storage).join() visited {:?}, expected {:?}", got, want); drop(st); drop(ents); return fail(prop, "C06", m); }
            let mut got2: Vec<(u32, i32, u8)> = Vec::new();
            (&ents, &st).lend_join().for_each(|(e, c)| got2.push((e.id(), e.gen().id(), c.val())));
            if got2 != want { let m = format!("(&entities, &storage).lend_join().for_each visited {:?}, expected {:?}", got2, want); drop(st); drop(ents); return fail(prop, "C06", m); }
            drop(ents);
        }
        drop(st);
        {
            let ents = self.world.entities();
            let mut wst = self.world.write_storage::<C>();
            let mut occ: Vec<(u32, bool)> = Vec::new();
            (&ents, wst.entries()).lend_join().for_each(|(e, entry)| occ.push((e.id(), matches!(entry, specs::storage::StorageEntry::Occupied(_)))));
            drop(wst);
            let mut want: Vec<(u32, bool)> = (0..self.handles.len()).filter(|h| self.alive[*h]).map(|h| (self.handles[h].id(), self.model.contains_key(&h))).collect();
            want.sort();
            drop(ents);
            if occ != want { return fail(prop, "C06", format!("entries() walk saw (index, occupied) {:?}, expected {:?}", occ, want)); }
        }
        // C12: exactly the expected events, in order
        if let Some(r) = self.reader.as_mut() {
            let new = C::drain_events(&self.world, r);
            self.seen.extend(new);
            if self.seen != self.expect_events {
                return fail(prop, "C12", format!("event stream {:?}, expected {:?}", self.seen, self.expect_events));
            }
        }
        Ok(())
    }
}

fn ops_for(nh: usize) -> Vec<Op> {
    let mut v = vec![Op::Create, Op::CreateDeferred, Op::Maintain, Op::Drain, Op::Clear, Op::JoinMut];
    for a in 0..nh {
        v.push(Op::Delete(a)); v.push(Op::DeleteDeferred(a)); v.push(Op::Insert(a, 7)); v.push(Op::Insert(a, 9)); v.push(Op::Remove(a)); v.push(Op::Get(a)); v.push(Op::GetMut(a, 5));
        v.push(Op::EntryOrInsert(a, 3)); v.push(Op::GetMutOrDefault(a)); v.push(Op::LendGet(a));
        for b in 0..nh { v.push(Op::RestrictOther(a, b)); v.push(Op::RestrictOtherMut(a, b, 4)); v.push(Op::RestrictReadOther(a, b)); }
    }
    v
}

fn replay<C: Kind>(prop: &str, hist: &[Op]) -> Result<(), (usize, String, String)> where C::Storage: Default {
    let mut run = Run::<C>::new();
    for (k, op) in hist.iter().enumerate() {
        let r = std::panic::catch_unwind(std::panic::AssertUnwindSafe(|| run.step(prop, op)));
        match r { Ok(Ok(())) => {}, Ok(Err((w, m))) => return Err((k, w, m)), Err(_) => return Err((k, "panic".into(), "the real crate panicked".into())) }
    }
    Ok(())
}

fn dfs<C: Kind>(prop: &str, hist: &mut Vec<Op>, depth: usize, seed: u64, count: &mut u64) -> Option<(Vec<Op>, String, String)> where C::Storage: Default {
    let nh = hist.iter().filter(|o| matches!(o, Op::Create | Op::CreateDeferred)).count().min(2);
    let mut ops = ops_for(nh);
    if hist.iter().filter(|o| matches!(o, Op::Create | Op::CreateDeferred)).count() >= 3 { ops.retain(|o| !matches!(o, Op::Create | Op::CreateDeferred)); }
    let n = ops.len(); ops.rotate_left((seed as usize) % n);
    for op in ops {
        hist.push(op); *count += 1;
        match replay::<C>(prop, hist) {
            Err((_, w, m)) => return Some((hist.clone(), w, m)),
            Ok(()) => if depth > 1 { if let Some(f) = dfs::<C>(prop, hist, depth - 1, seed, count) { return Some(f); } }
        }
        hist.pop();
    }
    None
}

fn hist_json(h: &[Op]) -> String { format!("[{}]", h.iter().map(|o| o.json()).collect::<Vec<_>>().join(",")) }
fn parse_hist(s: &str) -> Vec<Op> {
    let s = s.trim(); let inner = &s[1..s.len() - 1];
    let mut out = vec![]; let mut depth = 0; let mut cur = String::new();
    for ch in inner.chars() { match ch { '[' => { depth += 1; cur.push(ch); } ']' => { depth -= 1; cur.push(ch); }
        ',' if depth == 0 => { if let Some(o) = Op::parse(&cur) { out.push(o); } cur.clear(); } _ => cur.push(ch) } }
    if !cur.trim().is_empty() { if let Some(o) = Op::parse(&cur) { out.push(o); } }
    out
}

macro_rules! each_kind { ($f:ident, $($arg:expr),*) => {{
    let mut r = None;
    if r.is_none() { r = $f::<CDense>($($arg),*); } if r.is_none() { r = $f::<CVec>($($arg),*); } if r.is_none() { r = $f::<CDef>($($arg),*); }
    if r.is_none() { r = $f::<CHash>($($arg),*); } if r.is_none() { r = $f::<CBTree>($($arg),*); } if r.is_none() { r = $f::<CFlag>($($arg),*); }
    if r.is_none() { r = $f::<CDeref>($($arg),*); }
    r }}; }

/// fixed prefixes the bounded search continues from: nothing; an index reused by a newer entity that has the component;
/// an entity created through the shared resource and not yet merged
fn prefixes() -> Vec<Vec<Op>> {
    vec![vec![],
         vec![Op::Create, Op::Insert(0, 7), Op::Delete(0), Op::Create, Op::Insert(1, 9)],
         vec![Op::Create, Op::Insert(0, 7), Op::Delete(0), Op::CreateDeferred, Op::Insert(1, 9)],
         vec![Op::CreateDeferred, Op::Insert(0, 7)]]
}
fn search_kind<C: Kind>(prop: &str, depth: usize, seed: u64, total: &mut u64) -> Option<(String, Vec<Op>, String, String)> where C::Storage: Default {
    for (pi, pre) in prefixes().into_iter().enumerate() {
        if replay::<C>(prop, &pre).is_err() { let r = replay::<C>(prop, &pre).unwrap_err(); return Some((C::NAME.to_string(), pre, r.1, r.2)); }
        let dmax = if pi == 0 { depth } else { depth.saturating_sub(2).max(1) };
        for d in 1..=dmax {
            let mut count = 0;
            let mut h = pre.clone();
            let r = dfs::<C>(prop, &mut h, d, seed, &mut count);
            *total += count;
            if let Some((h, w, m)) = r { return Some((C::NAME.to_string(), h, w, m)); }
        }
    }
    None
}
fn run_kind<C: Kind>(prop: &str, kind: &str, h: &[Op]) -> Option<Result<(), (usize, String, String)>> where C::Storage: Default {
    if C::NAME == kind { Some(replay::<C>(prop, h)) } else { None }
}

fn main() {
    std::panic::set_hook(Box::new(|_| {}));
    let args: Vec<String> = std::env::args().collect();
    match args.get(1).map(|s| s.as_str()) {
        Some("search") => {
            let prop = args[2].clone(); let depth: usize = args[3].parse().unwrap();
            let seed: u64 = args.get(4).and_then(|s| s.parse().ok()).unwrap_or(0);
            let mut total = 0u64;
            let found = each_kind!(search_kind, &prop, depth, seed, &mut total);
            match found {
                Some((k, h, w, m)) => println!("{{\"found\":true,\"property\":\"{}\",\"kind\":\"{}\",\"history\":{},\"message\":{:?},\"histories_tried\":{}}}", w, k, hist_json(&h), m, total),
                None => println!("{{\"found\":false,\"histories_tried\":{},\"depth\":{}}}", total, depth),
            }
        }
        Some("run") => {
            let prop = args[2].clone(); let kind = args[3].clone(); let h = parse_hist(&args[4]);
            let r = each_kind!(run_kind, &prop, &kind, &h);
            match r {
                Some(Ok(())) | None => println!("{{\"violates\":false}}"),
                Some(Err((k, w, m))) => { println!("{{\"violates\":true,\"property\":\"{}\",\"step\":{},\"message\":{:?}}}", w, k, m); std::process::exit(1); }
            }
        }
        _ => { eprintln!("usage: search <prop> <depth> <seed> | run <prop> <kind> <history-json>"); std::process::exit(2); }
    }
}
