//! Witness finder for C15 (marker ids) and C16 (change sets) on the REAL crate (built with the `serde` feature).
//! usage: replay-misc search <C15|C16|any> <depth> <seed>  |  replay-misc run <prop> <history-json>
use specs::prelude::*;
use specs::changeset::ChangeSet;
use specs::saveload::{MarkerAllocator, SimpleMarker, SimpleMarkerAllocator, Marker};
use std::collections::BTreeMap;
use std::ops::AddAssign;

#[derive(Clone, Debug, PartialEq, Default)]
struct Cat(Vec<u8>);   // a non-commutative amount: concatenation
impl AddAssign for Cat { fn add_assign(&mut self, o: Cat) { self.0.extend(o.0); } }

#[derive(Clone, Debug, PartialEq)]
enum Op { Add(usize, u8), Ext(usize, usize), Mark(usize), Load(usize, u64) }
impl Op {
    fn json(&self) -> String { match self { Op::Add(e, v) => format!("[\"add\",{},{}]", e, v), Op::Ext(a, b) => format!("[\"extend\",{},{}]", a, b), Op::Mark(e) => format!("[\"mark\",{}]", e), Op::Load(e, id) => format!("[\"load\",{},{}]", e, id) } }
    fn parse(t: &str) -> Option<Op> {
        let t = t.trim().trim_matches(|c| c == '[' || c == ']');
        let p: Vec<&str> = t.split(',').map(|s| s.trim().trim_matches('"')).collect();
        let n = |i: usize| p.get(i).and_then(|s| s.parse::<u64>().ok());
        Some(match p[0] { "add" => Op::Add(n(1)? as usize, n(2)? as u8), "extend" => Op::Ext(n(1)? as usize, n(2)? as usize), "mark" => Op::Mark(n(1)? as usize), "load" => Op::Load(n(1)? as usize, n(2)?), _ => return None })
    }
}
struct M;
fn replay(prop: &str, hist: &[Op]) -> Result<(), (usize, String, String)> {
    let mut world = World::new();
    let ents: Vec<Entity> = (0..3).map(|_| world.create_entity().build()).collect();
    let mut cs: ChangeSet<Cat> = ChangeSet::new();
    let mut model: BTreeMap<usize, Vec<u8>> = BTreeMap::new();
    let mut alloc = SimpleMarkerAllocator::<M>::new();
    let mut ids: BTreeMap<u64, usize> = BTreeMap::new();   // marker id -> entity it was last given to
    for (k, op) in hist.iter().enumerate() {
        match *op {
            Op::Add(e, v) => {
                if prop != "C16" && prop != "any" { continue; }
                cs.add(ents[e], Cat(vec![v]));
                model.entry(e).or_default().push(v);
                let entities = world.entities();
                let got: BTreeMap<u32, Vec<u8>> = (&*entities, &cs).join().map(|(en, c)| (en.id(), c.0.clone())).collect();
                let want: BTreeMap<u32, Vec<u8>> = model.iter().map(|(e, v)| (ents[*e].id(), v.clone())).collect();
                if got != want { return Err((k, "C16".into(), format!("change set holds {:?}, arrival-order accumulation is {:?}", got, want))); }
            }
            Op::Ext(a, b) => {
                // extend with three pairs (a, 7), (b, 8), (a, 9): arrival order, repeated entity
                if prop != "C16" && prop != "any" { continue; }
                cs.extend(vec![(ents[a], Cat(vec![7])), (ents[b], Cat(vec![8])), (ents[a], Cat(vec![9]))]);
                model.entry(a).or_default().push(7); model.entry(b).or_default().push(8); model.entry(a).or_default().push(9);
                let entities = world.entities();
                let got: BTreeMap<u32, Vec<u8>> = (&*entities, &cs).join().map(|(en, c)| (en.id(), c.0.clone())).collect();
                let want: BTreeMap<u32, Vec<u8>> = model.iter().map(|(e, v)| (ents[*e].id(), v.clone())).collect();
                if got != want { return Err((k, "C16".into(), format!("after extend the change set holds {:?}, arrival-order accumulation is {:?}", got, want))); }
            }
            Op::Mark(e) => {
                if prop != "C15" && prop != "any" { continue; }
                let m: SimpleMarker<M> = alloc.allocate(ents[e], None);
                if let Some(prev) = ids.get(&m.id()) { return Err((k, "C15".into(), format!("fresh marker id {} was already given out (to entity #{})", m.id(), prev))); }
                ids.insert(m.id(), e);
            }
            Op::Load(e, id) => {
                if prop != "C15" && prop != "any" { continue; }
                let m: SimpleMarker<M> = alloc.allocate(ents[e], Some(id));
                if m.id() != id { return Err((k, "C15".into(), format!("explicit id {} came back as {}", id, m.id()))); }
                ids.insert(id, e);
                if alloc.retrieve_entity_internal(id) != Some(ents[e]) { return Err((k, "C15".into(), format!("table does not map id {} to the entity it was just given to", id))); }
            }
        }
    }
    if prop == "C16" || prop == "any" {
        // consuming the change set yields every accumulated amount exactly once, paired with its entity
        let entities = world.entities();
        let got: Vec<(u32, Vec<u8>)> = (&*entities, cs).join().map(|(en, c)| (en.id(), c.0)).collect();
        let want: Vec<(u32, Vec<u8>)> = model.iter().map(|(e, v)| (ents[*e].id(), v.clone())).collect();
        if got != want { return Err((hist.len().saturating_sub(1), "C16".into(), format!("consuming the change set yields {:?}, arrival-order accumulation is {:?}", got, want))); }
    }
    Ok(())
}
fn ops() -> Vec<Op> {
    let mut v = vec![];
    for e in 0..3 { v.push(Op::Add(e, 1)); v.push(Op::Add(e, 2)); v.push(Op::Ext(e, (e + 1) % 3)); v.push(Op::Mark(e)); for id in 0..4 { v.push(Op::Load(e, id)); } }
    v
}
fn dfs(prop: &str, h: &mut Vec<Op>, d: usize, seed: u64, n: &mut u64) -> Option<(Vec<Op>, String, String)> {
    let mut o = ops(); let l = o.len(); o.rotate_left(seed as usize % l);
    for op in o { h.push(op); *n += 1;
        match std::panic::catch_unwind(std::panic::AssertUnwindSafe(|| replay(prop, h))) {
            Ok(Err((_, w, m))) => return Some((h.clone(), w, m)),
            Err(_) => return Some((h.clone(), "panic".into(), "the real crate panicked".into())),
            Ok(Ok(())) => if d > 1 { if let Some(f) = dfs(prop, h, d - 1, seed, n) { return Some(f); } } }
        h.pop(); }
    None
}
fn main() {
    std::panic::set_hook(Box::new(|_| {}));
    let a: Vec<String> = std::env::args().collect();
    match a.get(1).map(|s| s.as_str()) {
        Some("search") => { let mut n = 0; let depth: usize = a[3].parse().unwrap(); let seed = a.get(4).and_then(|s| s.parse().ok()).unwrap_or(0);
            let mut f = None; for d in 1..=depth { f = dfs(&a[2], &mut vec![], d, seed, &mut n); if f.is_some() { break; } }
            match f { Some((h, w, m)) => println!("{{\"found\":true,\"property\":\"{}\",\"history\":[{}],\"message\":{:?},\"histories_tried\":{}}}", w, h.iter().map(|o| o.json()).collect::<Vec<_>>().join(","), m, n),
                      None => println!("{{\"found\":false,\"histories_tried\":{},\"depth\":{}}}", n, depth) } }
        Some("run") => { let s = a[3].trim(); let inner = &s[1..s.len() - 1]; let mut out = vec![]; let mut depth = 0; let mut cur = String::new();
            for ch in inner.chars() { match ch { '[' => { depth += 1; cur.push(ch); } ']' => { depth -= 1; cur.push(ch); } ',' if depth == 0 => { if let Some(o) = Op::parse(&cur) { out.push(o); } cur.clear(); } _ => cur.push(ch) } }
            if !cur.trim().is_empty() { if let Some(o) = Op::parse(&cur) { out.push(o); } }
            match replay(&a[2], &out) { Ok(()) => println!("{{\"violates\":false}}"), Err((k, w, m)) => { println!("{{\"violates\":true,\"property\":\"{}\",\"step\":{},\"message\":{:?}}}", w, k, m); std::process::exit(1); } } }
        _ => std::process::exit(2),
    }
}
