// TRUSTED: stand-ins for ahash::AHashMap (a std HashMap with a different hasher) and std::collections::BTreeMap as used by
// HashMapStorage / BTreeStorage: a finite map from keys to values with the documented behaviour of
// clear / index / get_mut / insert / remove. Iteration order is not modelled (neither storage iterates its map).
#[verifier::external_body]
#[verifier::reject_recursive_types(K)]
#[verifier::accept_recursive_types(V)]
pub struct HashMap<K, V> { k: core::marker::PhantomData<K>, v: core::marker::PhantomData<V> }
impl<K, V> HashMap<K, V> {
    pub uninterp spec fn view(&self) -> Map<K, V>;
    #[verifier::external_body]
    pub fn default() -> (r: Self) ensures r@ == Map::<K, V>::empty() { unimplemented!() }
    #[verifier::external_body]
    pub fn clear(&mut self) ensures final(self)@ == Map::<K, V>::empty() { unimplemented!() }
    // core::ops::Index::index (N20 target of `map[&k]`): panics for an absent key
    #[verifier::external_body]
    pub fn index(&self, k: &K) -> (r: &V)
        requires self@.dom().contains(*k)
        ensures *r == self@[*k]
    { unimplemented!() }
    #[verifier::external_body]
    pub fn get_mut(&mut self, k: &K) -> (r: Option<&mut V>)
        ensures
            (r is Some) == old(self)@.dom().contains(*k),
            r is Some ==> *r->0 == old(self)@[*k] && final(self)@ == old(self)@.insert(*k, *final(r->0)),
            r is None ==> final(self)@ == old(self)@,
    { unimplemented!() }
    #[verifier::external_body]
    pub fn insert(&mut self, k: K, v: V) -> (r: Option<V>)
        ensures
            final(self)@ == old(self)@.insert(k, v),
            r == (if old(self)@.dom().contains(k) { Some(old(self)@[k]) } else { None }),
    { unimplemented!() }
    #[verifier::external_body]
    pub fn remove(&mut self, k: &K) -> (r: Option<V>)
        ensures
            final(self)@ == old(self)@.remove(*k),
            r == (if old(self)@.dom().contains(*k) { Some(old(self)@[*k]) } else { None }),
    { unimplemented!() }
}
#[verifier::external_body]
#[verifier::reject_recursive_types(K)]
#[verifier::accept_recursive_types(V)]
pub struct BTreeMap<K, V> { k: core::marker::PhantomData<K>, v: core::marker::PhantomData<V> }
impl<K, V> BTreeMap<K, V> {
    pub uninterp spec fn view(&self) -> Map<K, V>;
    #[verifier::external_body]
    pub fn default() -> (r: Self) ensures r@ == Map::<K, V>::empty() { unimplemented!() }
    #[verifier::external_body]
    pub fn clear(&mut self) ensures final(self)@ == Map::<K, V>::empty() { unimplemented!() }
    // core::ops::Index::index (N20 target of `map[&k]`): panics for an absent key
    #[verifier::external_body]
    pub fn index(&self, k: &K) -> (r: &V)
        requires self@.dom().contains(*k)
        ensures *r == self@[*k]
    { unimplemented!() }
    #[verifier::external_body]
    pub fn get_mut(&mut self, k: &K) -> (r: Option<&mut V>)
        ensures
            (r is Some) == old(self)@.dom().contains(*k),
            r is Some ==> *r->0 == old(self)@[*k] && final(self)@ == old(self)@.insert(*k, *final(r->0)),
            r is None ==> final(self)@ == old(self)@,
    { unimplemented!() }
    #[verifier::external_body]
    pub fn insert(&mut self, k: K, v: V) -> (r: Option<V>)
        ensures
            final(self)@ == old(self)@.insert(k, v),
            r == (if old(self)@.dom().contains(k) { Some(old(self)@[k]) } else { None }),
    { unimplemented!() }
    #[verifier::external_body]
    pub fn remove(&mut self, k: &K) -> (r: Option<V>)
        ensures
            final(self)@ == old(self)@.remove(*k),
            r == (if old(self)@.dom().contains(*k) { Some(old(self)@[*k]) } else { None }),
    { unimplemented!() }
}
