// TRUSTED: stand-ins for hibitset's BitSetLike family as used by the join machinery (src/join/*).
// Contract = hibitset documentation: a bit set is a set of u32 indices; `iter()` yields its members in strictly
// ascending order, each exactly once; BitIter::contains asks the underlying set; BitSetNot is the complement,
// BitSetAll every index, BitSetAnd the intersection. The layered skip logic inside hibitset is NOT verified here.
// sorted_seq(s): the members of s in strictly ascending order. DEFINED (not assumed): scan the index space upwards.
pub open spec fn seq_below(s: Set<u32>, n: nat) -> Seq<u32>
    decreases n
{
    if n == 0 { Seq::empty() } else {
        let q = seq_below(s, (n - 1) as nat);
        if s.contains((n - 1) as u32) { q.push((n - 1) as u32) } else { q }
    }
}
pub proof fn lemma_seq_below(s: Set<u32>, n: nat)
    requires n <= 0x1_0000_0000
    ensures
        forall|a: int, b: int| 0 <= a < b < seq_below(s, n).len() ==> seq_below(s, n)[a] < seq_below(s, n)[b],
        forall|a: int| 0 <= a < seq_below(s, n).len() ==> (#[trigger] seq_below(s, n)[a] as nat) < n && s.contains(seq_below(s, n)[a]),
        forall|i: u32| (i as nat) < n && s.contains(i) ==> seq_below(s, n).contains(i),
    decreases n
{
    if n > 0 {
        lemma_seq_below(s, (n - 1) as nat);
        let q = seq_below(s, (n - 1) as nat);
        let x = (n - 1) as u32;
        if s.contains(x) {
            let r = q.push(x);
            assert(seq_below(s, n) == r);
            assert forall|i: u32| (i as nat) < n && s.contains(i) implies r.contains(i) by {
                if i == x { assert(r[q.len() as int] == x); } else {
                    assert(q.contains(i));
                    let k = choose|k: int| 0 <= k < q.len() && q[k] == i;
                    assert(r[k] == i);
                }
            }
        }
    }
}
#[verifier::opaque]
pub open spec fn sorted_seq(s: Set<u32>) -> Seq<u32> { seq_below(s, 0x1_0000_0000) }
// PROVED (was an axiom): strictly ascending, exactly the members of s
pub broadcast proof fn axiom_sorted_seq(s: Set<u32>)
    ensures
        forall|a: int, b: int| 0 <= a < b < (#[trigger] sorted_seq(s)).len() ==> sorted_seq(s)[a] < sorted_seq(s)[b],
        forall|i: u32| s.contains(i) <==> sorted_seq(s).contains(i),
{
    reveal(sorted_seq);
    lemma_seq_below(s, 0x1_0000_0000);
    assert forall|i: u32| sorted_seq(s).contains(i) implies s.contains(i) by {
        let k = choose|k: int| 0 <= k < sorted_seq(s).len() && sorted_seq(s)[k] == i;
        assert(s.contains(sorted_seq(s)[k]));
    }
}
pub uninterp spec fn all_u32() -> Set<u32>;
#[verifier::external_body]
pub broadcast proof fn axiom_all_u32(i: u32)
    ensures #[trigger] all_u32().contains(i),
{}

pub trait BitSetLike: Sized {
    spec fn bview(&self) -> Set<u32>;
    fn contains(&self, i: u32) -> (r: bool)
        ensures r == self.bview().contains(i);
    fn iter(self) -> (r: BitIter<Self>)
        ensures r.rem() == sorted_seq(self.bview()), r.set_view() == self.bview();
    fn is_empty(&self) -> (r: bool)
        ensures r == (self.bview() =~= Set::<u32>::empty());
    // the raw layer words of the hierarchical bit set: UNSPECIFIED here (code that decides anything from them directly cannot be
    // verified against the set view and fails its obligation instead of being rejected as an unknown method)
    #[verifier::external_body]
    fn layer3(&self) -> (r: usize) { unimplemented!() }
    #[verifier::external_body]
    fn layer2(&self, i: usize) -> (r: usize) { unimplemented!() }
    #[verifier::external_body]
    fn layer1(&self, i: usize) -> (r: usize) { unimplemented!() }
    #[verifier::external_body]
    fn layer0(&self, i: usize) -> (r: usize) { unimplemented!() }
}

#[verifier::external_body]
pub struct BitSet { x: u8 }
impl BitSet {
    pub uninterp spec fn view(&self) -> Set<u32>;
    #[verifier::external_body]
    pub fn add(&mut self, id: u32) -> (r: bool)
        ensures final(self)@ == old(self)@.insert(id), r == old(self)@.contains(id)
    { unimplemented!() }
    #[verifier::external_body]
    pub fn remove(&mut self, id: u32) -> (r: bool)
        ensures final(self)@ == old(self)@.remove(id), r == old(self)@.contains(id)
    { unimplemented!() }
    #[verifier::external_body]
    pub fn clear(&mut self)
        ensures final(self)@ == Set::<u32>::empty()
    { unimplemented!() }
    #[verifier::external_body]
    pub fn new() -> (r: BitSet) ensures r@ == Set::<u32>::empty() { unimplemented!() }
}
impl Default for BitSet {
    #[verifier::external_body]
    fn default() -> (r: BitSet) ensures r@ == Set::<u32>::empty() { unimplemented!() }
}
impl Clone for BitSet {
    #[verifier::external_body]
    fn clone(&self) -> (r: BitSet) ensures r@ == self@ { unimplemented!() }
}
impl BitSetLike for BitSet {
    open spec fn bview(&self) -> Set<u32> { self@ }
    #[verifier::external_body]
    fn contains(&self, i: u32) -> (r: bool) { unimplemented!() }
    #[verifier::external_body]
    fn iter(self) -> (r: BitIter<Self>) { unimplemented!() }
    #[verifier::external_body]
    fn is_empty(&self) -> (r: bool) { unimplemented!() }
}
impl<'a> BitSetLike for &'a BitSet {
    open spec fn bview(&self) -> Set<u32> { (**self)@ }
    #[verifier::external_body]
    fn contains(&self, i: u32) -> (r: bool) { unimplemented!() }
    #[verifier::external_body]
    fn iter(self) -> (r: BitIter<Self>) { unimplemented!() }
    #[verifier::external_body]
    fn is_empty(&self) -> (r: bool) { unimplemented!() }
}
pub struct BitSetAll;
impl BitSetLike for BitSetAll {
    open spec fn bview(&self) -> Set<u32> { all_u32() }
    #[verifier::external_body]
    fn contains(&self, i: u32) -> (r: bool) { unimplemented!() }
    #[verifier::external_body]
    fn iter(self) -> (r: BitIter<Self>) { unimplemented!() }
    #[verifier::external_body]
    fn is_empty(&self) -> (r: bool) { unimplemented!() }
}
pub struct BitSetNot<A: BitSetLike>(pub A);
impl<A: BitSetLike> BitSetLike for BitSetNot<A> {
    open spec fn bview(&self) -> Set<u32> { all_u32() - self.0.bview() }
    #[verifier::external_body]
    fn contains(&self, i: u32) -> (r: bool) { unimplemented!() }
    #[verifier::external_body]
    fn iter(self) -> (r: BitIter<Self>) { unimplemented!() }
    #[verifier::external_body]
    fn is_empty(&self) -> (r: bool) { unimplemented!() }
}
pub struct BitSetAnd<A: BitSetLike, B: BitSetLike>(pub A, pub B);
impl<A: BitSetLike, B: BitSetLike> BitSetLike for BitSetAnd<A, B> {
    open spec fn bview(&self) -> Set<u32> { self.0.bview().intersect(self.1.bview()) }
    #[verifier::external_body]
    fn contains(&self, i: u32) -> (r: bool) { unimplemented!() }
    #[verifier::external_body]
    fn iter(self) -> (r: BitIter<Self>) { unimplemented!() }
    #[verifier::external_body]
    fn is_empty(&self) -> (r: bool) { unimplemented!() }
}

#[verifier::external_body]
#[verifier::reject_recursive_types(B)]
pub struct BitIter<B> { x: core::marker::PhantomData<B> }
impl<B> BitIter<B> {
    pub uninterp spec fn rem(&self) -> Seq<u32>;        // indices still to be yielded, ascending
    pub uninterp spec fn set_view(&self) -> Set<u32>;   // the whole underlying set
    #[verifier::external_body]
    pub fn contains(&self, i: u32) -> (r: bool)
        ensures r == self.set_view().contains(i)
    { unimplemented!() }
    // Iterator::next, as an inherent method so that it can carry its contract
    #[verifier::external_body]
    pub fn next(&mut self) -> (r: Option<u32>)
        ensures
            final(self).set_view() == old(self).set_view(),
            old(self).rem().len() == 0 ==> r is None && final(self).rem() == old(self).rem(),
            old(self).rem().len() > 0 ==> r == Some(old(self).rem()[0]) && final(self).rem() == old(self).rem().drop_first(),
    { unimplemented!() }
}

#[verifier::external_body]
pub struct AtomicBitSet { x: u8 }
impl AtomicBitSet {
    pub uninterp spec fn view(&self) -> Set<u32>;
    #[verifier::external_body]
    pub fn add_atomic(&mut self, id: u32) -> (r: bool)
        ensures final(self)@ == old(self)@.insert(id), r == old(self)@.contains(id)
    { unimplemented!() }
    #[verifier::external_body]
    pub fn add(&mut self, id: u32) -> (r: bool)
        ensures final(self)@ == old(self)@.insert(id), r == old(self)@.contains(id)
    { unimplemented!() }
    #[verifier::external_body]
    pub fn remove(&mut self, id: u32) -> (r: bool)
        ensures final(self)@ == old(self)@.remove(id), r == old(self)@.contains(id)
    { unimplemented!() }
    #[verifier::external_body]
    pub fn clear(&mut self)
        ensures final(self)@ == Set::<u32>::empty()
    { unimplemented!() }
}
impl BitSetLike for AtomicBitSet {
    open spec fn bview(&self) -> Set<u32> { self@ }
    #[verifier::external_body]
    fn contains(&self, i: u32) -> (r: bool) { unimplemented!() }
    #[verifier::external_body]
    fn iter(self) -> (r: BitIter<Self>) { unimplemented!() }
    #[verifier::external_body]
    fn is_empty(&self) -> (r: bool) { unimplemented!() }
}
impl<'a> BitSetLike for &'a AtomicBitSet {
    open spec fn bview(&self) -> Set<u32> { (**self)@ }
    #[verifier::external_body]
    fn contains(&self, i: u32) -> (r: bool) { unimplemented!() }
    #[verifier::external_body]
    fn iter(self) -> (r: BitIter<Self>) { unimplemented!() }
    #[verifier::external_body]
    fn is_empty(&self) -> (r: bool) { unimplemented!() }
}
// BitSetOr(a, b): the union of two bit sets
pub struct BitSetOr<A: BitSetLike, B: BitSetLike>(pub A, pub B);
impl<A: BitSetLike, B: BitSetLike> BitSetLike for BitSetOr<A, B> {
    open spec fn bview(&self) -> Set<u32> { self.0.bview() + self.1.bview() }
    #[verifier::external_body]
    fn contains(&self, i: u32) -> (r: bool) { unimplemented!() }
    #[verifier::external_body]
    fn iter(self) -> (r: BitIter<Self>) { unimplemented!() }
    #[verifier::external_body]
    fn is_empty(&self) -> (r: bool) { unimplemented!() }
}
impl<A: BitSetLike, B: BitSetLike> BitSetOr<A, B> {
    pub open spec fn view(&self) -> Set<u32> { self.0.bview() + self.1.bview() }
}
// `for i in bits.iter()` support (vstd's for-loop protocol)
impl<B> Iterator for BitIter<B> {
    type Item = u32;
    #[verifier::external_body]
    fn next(&mut self) -> Option<u32> { unimplemented!() }
}
impl<B> vstd::std_specs::iter::IteratorSpecImpl for BitIter<B> {
    open spec fn obeys_prophetic_iter_laws(&self) -> bool { true }
    open spec fn remaining(&self) -> Seq<u32> { self.rem() }
    open spec fn will_return_none(&self) -> bool { true }
    open spec fn decrease(&self) -> Option<nat> { Some(self.rem().len()) }
    open spec fn peek(&self, i: int) -> Option<u32> { if 0 <= i < self.rem().len() { Some(self.rem()[i]) } else { None } }
}

// TRUSTED: tuple_utils::Split for pairs and triples (left half, right half; the odd element goes right)
pub trait Split: Sized {
    type Left;
    type Right;
    spec fn split_spec(self) -> (Self::Left, Self::Right);
    fn split(self) -> (r: (Self::Left, Self::Right)) ensures r == self.split_spec();
}
impl<A, B> Split for (A, B) {
    type Left = (A,);
    type Right = (B,);
    open spec fn split_spec(self) -> ((A,), (B,)) { ((self.0,), (self.1,)) }
    #[verifier::external_body]
    fn split(self) -> (r: ((A,), (B,))) { ((self.0,), (self.1,)) }
}
impl<A, B, C> Split for (A, B, C) {
    type Left = (A,);
    type Right = (B, C);
    open spec fn split_spec(self) -> ((A,), (B, C)) { ((self.0,), (self.1, self.2)) }
    #[verifier::external_body]
    fn split(self) -> (r: ((A,), (B, C))) { ((self.0,), (self.1, self.2)) }
}
impl<A, B, C, D> Split for (A, B, C, D) {
    type Left = (A, B);
    type Right = (C, D);
    open spec fn split_spec(self) -> ((A, B), (C, D)) { ((self.0, self.1), (self.2, self.3)) }
    #[verifier::external_body]
    fn split(self) -> (r: ((A, B), (C, D))) { ((self.0, self.1), (self.2, self.3)) }
}
