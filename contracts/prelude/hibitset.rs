// TRUSTED: stand-ins for hibitset::{BitSet, AtomicBitSet, BitSetOr, BitSetAnd, BitSetNot, BitSetAll, BitIter}.
// Contract = hibitset documentation: a set of u32 indices; iteration yields the
// members in strictly ascending order, each exactly once. AtomicBitSet is sequentialised (N3).

// the ascending enumeration of a set of indices
pub uninterp spec fn sorted_seq(s: Set<u32>) -> Seq<u32>;
#[verifier::external_body]
pub broadcast proof fn axiom_sorted_seq(s: Set<u32>)
    ensures
        forall|a: int, b: int| 0 <= a < b < (#[trigger] sorted_seq(s)).len() ==> sorted_seq(s)[a] < sorted_seq(s)[b],
        forall|i: u32| s.contains(i) <==> sorted_seq(s).contains(i),
{}

#[verifier::external_body]
pub struct BitSet { x: u8 }
impl BitSet {
    pub uninterp spec fn view(&self) -> Set<u32>;
    #[verifier::external_body]
    pub fn new() -> (r: BitSet) ensures r@ == Set::<u32>::empty() { unimplemented!() }
    #[verifier::external_body]
    pub fn add(&mut self, id: Index) -> (r: bool)
        ensures final(self)@ == old(self)@.insert(id), r == old(self)@.contains(id)
    { unimplemented!() }
    #[verifier::external_body]
    pub fn remove(&mut self, id: Index) -> (r: bool)
        ensures final(self)@ == old(self)@.remove(id), r == old(self)@.contains(id)
    { unimplemented!() }
    #[verifier::external_body]
    pub fn contains(&self, id: Index) -> (r: bool)
        ensures r == self@.contains(id)
    { unimplemented!() }
    #[verifier::external_body]
    pub fn clear(&mut self)
        ensures final(self)@ == Set::<u32>::empty()
    { unimplemented!() }
    #[verifier::external_body]
    pub fn is_empty(&self) -> (r: bool)
        ensures r == (self@ == Set::<u32>::empty())
    { unimplemented!() }
    #[verifier::external_body]
    pub fn iter(&self) -> (r: BitIter)
        ensures r.rem() == sorted_seq(self@)
    { unimplemented!() }
}
impl Clone for BitSet {
    #[verifier::external_body]
    fn clone(&self) -> (r: BitSet) ensures r@ == self@ { unimplemented!() }
}

#[verifier::external_body]
pub struct AtomicBitSet { x: u8 }
impl AtomicBitSet {
    pub uninterp spec fn view(&self) -> Set<u32>;
    #[verifier::external_body]
    pub fn add_atomic(&mut self, id: Index) -> (r: bool)
        ensures final(self)@ == old(self)@.insert(id), r == old(self)@.contains(id)
    { unimplemented!() }
    #[verifier::external_body]
    pub fn add(&mut self, id: Index) -> (r: bool)
        ensures final(self)@ == old(self)@.insert(id), r == old(self)@.contains(id)
    { unimplemented!() }
    #[verifier::external_body]
    pub fn remove(&mut self, id: Index) -> (r: bool)
        ensures final(self)@ == old(self)@.remove(id), r == old(self)@.contains(id)
    { unimplemented!() }
    #[verifier::external_body]
    pub fn contains(&self, id: Index) -> (r: bool)
        ensures r == self@.contains(id)
    { unimplemented!() }
    #[verifier::external_body]
    pub fn clear(&mut self)
        ensures final(self)@ == Set::<u32>::empty()
    { unimplemented!() }
    #[verifier::external_body]
    pub fn iter(&self) -> (r: BitIter)
        ensures r.rem() == sorted_seq(self@)
    { unimplemented!() }
}

// BitIter: the iterator returned by BitSetLike::iter()
#[verifier::external_body]
pub struct BitIter { x: u8 }
impl BitIter {
    pub uninterp spec fn rem(&self) -> Seq<u32>;
}
impl Iterator for BitIter {
    type Item = u32;
    #[verifier::external_body]
    fn next(&mut self) -> Option<u32> { unimplemented!() }
}
impl vstd::std_specs::iter::IteratorSpecImpl for BitIter {
    open spec fn obeys_prophetic_iter_laws(&self) -> bool { true }
    open spec fn remaining(&self) -> Seq<u32> { self.rem() }
    open spec fn will_return_none(&self) -> bool { true }
    open spec fn decrease(&self) -> Option<nat> { Some(self.rem().len()) }
    open spec fn peek(&self, i: int) -> Option<u32> { if 0 <= i < self.rem().len() { Some(self.rem()[i]) } else { None } }
}

// BitSetOr(a, b): the union of two bit sets (here only at the instantiation the entities join uses)
pub struct BitSetOr<A, B>(pub A, pub B);
impl<'a> BitSetOr<&'a BitSet, &'a AtomicBitSet> {
    pub open spec fn view(&self) -> Set<u32> { self.0@ + self.1@ }
}
