// Vocabulary for the macro-generated per-entity (de)serialisation drivers (src/saveload/{ser,de}.rs). Everything here is either
// SPECIFICATION (trait-level contracts that real code is proved against elsewhere) or an ASSUMED contract on a dependency.
//@repo-items: Entity Error InsertResult Marker Component GenericWriteStorage GenericReadStorage ConvertSaveload
pub struct Entity(pub u32, pub i32);   // opaque here: only passed on
impl Clone for Entity { fn clone(&self) -> (r: Self) ensures r == *self { Entity(self.0, self.1) } }
impl Copy for Entity {}
// opaque specs::error::Error
#[verifier::external_body]
pub struct Error { x: u8 }
pub type InsertResult<T> = Result<Option<T>, Error>;
pub trait Marker: Sized {}
pub trait Component: Sized {}
// SPECIFICATION of GenericWriteStorage / GenericReadStorage (src/storage/generic.rs): a storage handle seen as a map from index to
// component plus an aliveness predicate. The clauses are the ones proved for the real `WriteStorage` / `ReadStorage` delegations in unit
// `storage` (GenericWriteStorage(WriteStorage)::{insert,remove}, GenericReadStorage(..)::get: C03 / C04).
pub trait GenericWriteStorage {
    type Component;
    spec fn gmap(&self) -> Map<u32, Self::Component>;
    spec fn glive(&self, e: Entity) -> bool;
    fn insert(&mut self, entity: Entity, comp: Self::Component) -> (r: InsertResult<Self::Component>)
        ensures
            old(self).glive(entity) ==> r is Ok && final(self).gmap() == old(self).gmap().insert(entity.0, comp),
            !old(self).glive(entity) ==> r is Err && final(self).gmap() == old(self).gmap(),
            forall|e: Entity| final(self).glive(e) == old(self).glive(e);
    fn remove(&mut self, entity: Entity)
        ensures
            final(self).gmap() == (if old(self).glive(entity) { old(self).gmap().remove(entity.0) } else { old(self).gmap() }),
            forall|e: Entity| final(self).glive(e) == old(self).glive(e);
}
pub trait GenericReadStorage {
    type Component;
    spec fn gmap(&self) -> Map<u32, Self::Component>;
    spec fn glive(&self, e: Entity) -> bool;
    fn get(&self, entity: Entity) -> (r: Option<&Self::Component>)
        ensures
            r is Some <==> (self.glive(entity) && self.gmap().dom().contains(entity.0)),
            r is Some ==> *r.unwrap() == self.gmap()[entity.0];
}
// ASSUMED: ConvertSaveload (user-implemented / derived conversions, C18): opaque; a conversion may fail, nothing else is known
pub trait ConvertSaveload<M>: Sized {
    type Data;
    type Error;
    fn convert_from<F: FnMut(M) -> Option<Entity>>(data: Self::Data, ids: F) -> Result<Self, Self::Error>;
    fn convert_into<F: FnMut(Entity) -> Option<M>>(&self, ids: F) -> Result<Self::Data, Self::Error>;
}
