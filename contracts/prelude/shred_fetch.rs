// TRUSTED: shred::{Fetch, FetchMut} behave as `&T` / `&mut T` (their Deref/DerefMut impls); borrow flags are shred's.
pub type FetchMut<'a, T> = &'a mut T;
pub type Fetch<'a, T> = &'a T;

// TRUSTED: core::mem::take on a BitSet leaves BitSet::default() (= empty) behind and returns the old value
#[verifier::external_body]
pub fn take_bitset(b: &mut BitSet) -> (r: BitSet)
    ensures r@ == old(b)@, final(b)@ == Set::<u32>::empty(),
{ unimplemented!() }

// N13: `cfg!(panic = "abort")` is a build-configuration constant; both values are covered
#[verifier::external_body]
pub fn cfg_panic_abort() -> (r: bool) { unimplemented!() }

// opaque payload of specs::error::Error::Custom (never constructed by the code under contract)
#[verifier::external_body]
#[derive(Debug)]
pub struct BoxedErr { x: u8 }

// TRUSTED: core::mem::forget consumes its argument without running its destructor and without
// touching anything it borrows (the borrow simply ends: `has_resolved`).
pub assume_specification<T>[core::mem::forget::<T>](t: T)
    ensures has_resolved(t);
pub type Read<'a, T> = &'a T;
