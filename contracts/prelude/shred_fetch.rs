// TRUSTED: shred::{Fetch, FetchMut} behave as `&T` / `&mut T` (their Deref/DerefMut impls); borrow flags are shred's.
pub type FetchMut<'a, T> = &'a mut T;
pub type Fetch<'a, T> = &'a T;

// TRUSTED: core::mem::take on a BitSet leaves BitSet::default() (= empty) behind and returns the old value
#[verifier::external_body]
pub fn take_bitset(b: &mut BitSet) -> (r: BitSet)
    ensures r@ == old(b)@, final(b)@ == Set::<u32>::empty(),
{ unimplemented!() }
