// TRUSTED / MODEL (continuation of std_unsafe.rs, used by unit `veckinds`):
//  * MaybeUninit::assume_init_drop requires an initialised slot and leaves it uninitialised (the value is destroyed);
//  * `ptr_read` (N10 target of core::ptr::read on a `&T`): a bitwise copy of the referent. The model has no notion of the
//    original becoming logically moved-out: that a value is not read out (or dropped) twice is the destructor-ledger
//    property C08, decided by the bounded Kani harnesses, not here;
//  * `vec_resize_with_default` (N10 target of `Vec::resize_with(n, Default::default)`): truncates or pads with default cells;
//  * `mem_take_default` (N10 target of core::mem::take): returns the old value and leaves the default behind.
impl<T> MaybeUninit<T> {
    #[verifier::external_body]
    pub unsafe fn assume_init_drop(&mut self)
        requires old(self).mv() is Some
        ensures final(self).mv() is None
    { unimplemented!() }
}
#[verifier::external_body]
pub unsafe fn ptr_read<T>(r: &T) -> (v: T)
    ensures v == *r
{ unsafe { core::ptr::read(r) } }

// `T: Default` with its value named in specifications
pub trait DefaultSpec: Sized {
    spec fn default_spec() -> Self;
    fn default_exec() -> (r: Self) ensures r == Self::default_spec();
}
#[verifier::external_body]
pub fn vec_resize_with_default<T: DefaultSpec>(v: &mut Vec<SyncUnsafeCell<T>>, n: usize)
    ensures
        final(v)@.len() == n,
        forall|i: int| 0 <= i < n && i < old(v)@.len() ==> final(v)@[i] == old(v)@[i],
        forall|i: int| old(v)@.len() <= i < n ==> (#[trigger] final(v)@[i]).cv() == T::default_spec(),
{ unimplemented!() }
#[verifier::external_body]
pub fn mem_take_default<T: DefaultSpec>(x: &mut T) -> (r: T)
    ensures r == *old(x), *final(x) == T::default_spec()
{ unimplemented!() }
