// TRUSTED: stand-in for std::sync::atomic::{AtomicUsize, Ordering}, *sequentialised* (N3):
// every operation takes `&mut self`, so only single-threaded executions are modelled.
pub struct Ordering;
impl Ordering { #[allow(non_upper_case_globals)] pub const Relaxed: Ordering = Ordering; }

#[verifier::external_body]
pub struct AtomicUsize { x: usize }
impl AtomicUsize {
    pub uninterp spec fn view(&self) -> usize;
    #[verifier::external_body]
    pub fn get_mut(&mut self) -> (r: &mut usize)
        ensures *r == old(self)@, final(self)@ == *final(r)
    { &mut self.x }
    #[verifier::external_body]
    pub fn load(&self, o: Ordering) -> (r: usize) ensures r == self@ { self.x }
    // weak CAS: may fail spuriously, so failure only promises the current value is returned
    #[verifier::external_body]
    pub fn compare_exchange_weak(&mut self, cur: usize, new: usize, s: Ordering, f: Ordering) -> (r: Result<usize, usize>)
        ensures
            r.is_ok() ==> old(self)@ == cur && final(self)@ == new && r.unwrap() == cur,
            r.is_err() ==> final(self)@ == old(self)@ && r.unwrap_err() == old(self)@,
    { if self.x == cur { self.x = new; Ok(cur) } else { Err(self.x) } }
}
