// TRUSTED (assumed contracts on rayon and hibitset's parallel producer; nothing here is verified):
//  * hibitset::BitProducer(iter, levels).split(): the two halves PARTITION the indices still to be yielded (disjoint, union = the
//    original, each half ascending and duplicate-free); without a second half the first one is the whole;
//  * `keys.0.map(f)` on a BitIter (Iterator::map) yields f(k) for every remaining k, in order, once each;
//  * rayon's Folder::consume_iter consumes every item the iterator yields, in order;
//  * rayon's bridge_unindexed(producer, consumer) reaches every index of the producer through split()/fold_with() only
//    (work stealing, thread counts and split depths are rayon's: C07's quantifier over them is NOT decided here).
#[verifier::reject_recursive_types(T)]
pub struct BitProducer<'a, T: BitSetLike>(pub BitIter<&'a T>, pub u8);
pub open spec fn seq_set(s: Seq<u32>) -> Set<u32> { Set::new(|i: u32| s.contains(i)).unwrap() }
pub open spec fn ascending(s: Seq<u32>) -> bool { forall|a: int, b: int| 0 <= a < b < s.len() ==> s[a] < s[b] }
// both halves are sub-sequences of the original in the sense needed: ascending, members of the original, jointly covering it, disjoint
pub open spec fn is_partition(whole: Seq<u32>, a: Seq<u32>, b: Seq<u32>) -> bool {
    &&& ascending(a) && ascending(b)
    &&& forall|i: u32| #![trigger whole.contains(i)] whole.contains(i) <==> (a.contains(i) || b.contains(i))
    &&& forall|i: u32| #![trigger a.contains(i)] !(a.contains(i) && b.contains(i))
}
impl<'a, T: BitSetLike> BitProducer<'a, T> {
    #[verifier::external_body]
    pub fn split(self) -> (r: (Self, Option<Self>))
        requires ascending(self.0.rem()),
        ensures
            r.1 is None ==> r.0.0.rem() == self.0.rem(),
            r.1 is Some ==> is_partition(self.0.rem(), r.0.0.rem(), r.1->Some_0.0.rem()),
            r.0.0.set_view() == self.0.set_view(),
            r.1 is Some ==> r.1->Some_0.0.set_view() == self.0.set_view(),
    { unimplemented!() }
}
// Iterator::map on a BitIter, as an inherent method so that it can carry a contract: the adaptor is described by the
// keys it will visit and the function applied to each
#[verifier::external_body]
#[verifier::reject_recursive_types(B)]
#[verifier::reject_recursive_types(F)]
pub struct BitMap<B, F> { x: core::marker::PhantomData<(B, F)> }
impl<B, F> BitMap<B, F> {
    pub uninterp spec fn keys(&self) -> Seq<u32>;
    pub uninterp spec fn fun(&self) -> F;
}
impl<B> BitIter<B> {
    #[verifier::external_body]
    pub fn map<R, F: Fn(u32) -> R>(self, f: F) -> (r: BitMap<B, F>)
        requires forall|k: int| 0 <= k < self.rem().len() ==> f.requires((#[trigger] self.rem()[k],)),
        ensures r.keys() == self.rem(), r.fun() == f,
    { unimplemented!() }
}
impl<B, R, F: Fn(u32) -> R> Iterator for BitMap<B, F> {
    type Item = R;
    #[verifier::external_body]
    fn next(&mut self) -> Option<R> { unimplemented!() }
}
// what a consumer has been fed so far
pub trait Folder<Item>: Sized {
    spec fn consumed(&self) -> Seq<Item>;
    // consume_iter over a mapped BitIter: appends exactly one item per key, in key order, each satisfying the mapping function's postcondition
    fn consume_iter<B, F: Fn(u32) -> Item>(self, iter: BitMap<B, F>) -> (r: Self)
        ensures
            r.consumed().len() == self.consumed().len() + iter.keys().len(),
            r.consumed().subrange(0, self.consumed().len() as int) == self.consumed(),
            forall|k: int| 0 <= k < iter.keys().len() ==> iter.fun().ensures((#[trigger] iter.keys()[k],), r.consumed()[self.consumed().len() + k]);
}
pub trait UnindexedConsumer<Item>: Sized { type Result; }
// hibitset: `impl<'a, T: BitSetLike> BitSetLike for &'a T` forwards to T; `(&keys).iter()` (N10 -> ref_iter(&keys)) enumerates keys' members
#[verifier::external_body]
pub fn ref_iter<'a, T: BitSetLike>(keys: &'a T) -> (r: BitIter<&'a T>)
    ensures r.rem() == sorted_seq(keys.bview()), r.set_view() == keys.bview(),
{ unimplemented!() }
// rayon::iter::plumbing::bridge_unindexed, at the one type it is used with. `bridged(result)` is a ghost record of the producer
// that was driven to obtain the result: the keys it owned and the values it fetched from.
pub uninterp spec fn bridged<R, V>(r: R) -> (Seq<u32>, V);
#[verifier::external_body]
pub fn bridge_unindexed<'a, J: ParJoin, C: UnindexedConsumer<J::Type>>(producer: JoinProducer<'a, J>, consumer: C) -> (r: C::Result)
    requires producer.pwf(),
    ensures bridged::<C::Result, J::Value>(r) == (producer.pkeys(), *producer.values),
{ unimplemented!() }
