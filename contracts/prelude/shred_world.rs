// TRUSTED: stand-in for shred::World as used by src/world/world_ext.rs, sequentialised (N3).
// The world is seen through: its entities resource, the set of storage resources it holds
// (`has_storage`), the set listed in the MetaTable<dyn AnyStorage> (`listed`), and each storage's
// membership mask (`smask`). `StorageId` abstracts ResourceId::new::<MaskedStorage<T>>() (injective in T).
pub type FetchMut<'a, T> = &'a mut T;
pub type Fetch<'a, T> = &'a T;
pub type Read<'a, T> = &'a T;

#[verifier::external_body]
pub struct LazyUpdate { x: u8 }
impl LazyUpdate {
    #[verifier::external_body]
    pub fn clone(&self) -> (r: LazyUpdate) { unimplemented!() }
}
// A queued action (`Box<dyn LazyUpdateInternal>`: an opaque closure). `aid` names it; running it appends its name to the world's
// execution log and may do ANYTHING else to the world, including queueing further actions (behind the ones already waiting).
#[verifier::external_body]
pub struct LazyAction { x: u8 }
impl LazyAction {
    pub uninterp spec fn aid(&self) -> int;
    #[verifier::external_body]
    pub fn update(self, world: &mut World)
        ensures
            final(world).lazy_log() == old(world).lazy_log().push(self.aid()),
            old(world).lazy_queue().is_prefix_of(final(world).lazy_queue()),
    { unimplemented!() }
}

#[verifier::external_body]
pub struct World { x: u8 }

pub type StorageId = int;

impl World {
    pub uninterp spec fn ents(&self) -> EntitiesRes;
    pub uninterp spec fn has_storage(&self, s: StorageId) -> bool;
    pub uninterp spec fn listed(&self, s: StorageId) -> bool;
    pub uninterp spec fn smask(&self, s: StorageId) -> Set<u32>;
    // the lazy-update resource's queue (crossbeam SegQueue: FIFO) and a ghost log of the actions run so far. The queue is
    // reached through an Arc that the world's LazyUpdate resource and every clone of it share; N10 rewrites
    // `self.queue.0.pop()` inside LazyUpdate::maintain(&self, world) to `world.lazy_pop()` — ASSUMED aliasing: the LazyUpdate
    // being drained is (a clone of) the world's own, which is what World::maintain passes.
    pub uninterp spec fn lazy_queue(&self) -> Seq<int>;
    pub uninterp spec fn lazy_log(&self) -> Seq<int>;
    pub open spec fn same_lazy(&self, o: &World) -> bool { self.lazy_queue() == o.lazy_queue() && self.lazy_log() == o.lazy_log() }
    #[verifier::external_body]
    pub fn lazy_pop(&mut self) -> (r: Option<LazyAction>)
        ensures
            final(self).ents() == old(self).ents(), final(self).same_storages(old(self)), final(self).lazy_log() == old(self).lazy_log(),
            old(self).lazy_queue().len() == 0 ==> r is None && final(self).lazy_queue() == old(self).lazy_queue(),
            old(self).lazy_queue().len() > 0 ==> r is Some && r->0.aid() == old(self).lazy_queue()[0] && final(self).lazy_queue() == old(self).lazy_queue().drop_first(),
    { unimplemented!() }

    // nothing but the entities resource differs
    pub open spec fn same_storages(&self, o: &World) -> bool {
        forall|s: StorageId| #![trigger self.smask(s)] #![trigger self.listed(s)] #![trigger self.has_storage(s)]
            self.has_storage(s) == o.has_storage(s) && self.listed(s) == o.listed(s) && self.smask(s) == o.smask(s)
    }

    #[verifier::external_body]
    pub fn entities_mut(&mut self) -> (r: &mut EntitiesRes)
        ensures *r == old(self).ents(), final(self).ents() == *final(r), final(self).same_storages(old(self)), final(self).same_lazy(old(self)),
    { unimplemented!() }
    #[verifier::external_body]
    pub fn entities(&self) -> (r: &EntitiesRes)
        ensures *r == self.ents(),
    { unimplemented!() }
    // generic resource access used for LazyUpdate only; the result is unconstrained
    #[verifier::external_body]
    pub fn write_resource<R>(&mut self) -> (r: &mut R)
        ensures final(self).ents() == old(self).ents(), final(self).same_storages(old(self)), final(self).same_lazy(old(self)),
    { unimplemented!() }

    // The MetaTable<dyn AnyStorage> as an indexed list: ASSUMED (shred) — `MetaTable::iter_mut(world)` yields every registered
    // storage exactly once; the loop `for storage in self.fetch_mut::<MetaTable<dyn AnyStorage>>().iter_mut(self) { storage.drop(X); }`
    // is normalised (N10) to `for k__ in 0..self.listed_len() { self.listed_drop(k__, X); }` over this list.
    pub uninterp spec fn listed_seq(&self) -> Seq<StorageId>;
    #[verifier::external_body]
    pub broadcast proof fn axiom_listed_seq(&self)
        ensures
            forall|s: StorageId| #![trigger self.listed(s)] self.listed(s) <==> self.listed_seq().contains(s),
            forall|a: int, b: int| 0 <= a < b < (#[trigger] self.listed_seq()).len() ==> self.listed_seq()[a] != self.listed_seq()[b],
    {}
    #[verifier::external_body]
    pub fn listed_len(&self) -> (r: usize)
        ensures r == self.listed_seq().len(),
    { unimplemented!() }
    // dynamic dispatch of AnyStorage::drop on the k-th listed storage = MaskedStorage<T>::drop(entities) for its T, which is verified
    // in unit `storage` (`MaskedStorage::any_drop`: removes exactly the given indices, keeps the rest)
    #[verifier::external_body]
    pub fn listed_drop(&mut self, k: usize, entities: &[Entity])
        requires k < old(self).listed_seq().len(),
        ensures
            final(self).ents() == old(self).ents(), final(self).listed_seq() == old(self).listed_seq(), final(self).same_lazy(old(self)),
            forall|s: StorageId| #![trigger final(self).smask(s)] #![trigger final(self).listed(s)] #![trigger final(self).has_storage(s)]
                final(self).has_storage(s) == old(self).has_storage(s) && final(self).listed(s) == old(self).listed(s)
                && final(self).smask(s) == (if s == old(self).listed_seq()[k as int] { old(self).smask(s) - ids(entities@).to_set() } else { old(self).smask(s) }),
    { unimplemented!() }
}

// TRUSTED COMPOSITION (used only by World::delete_all): `(&entities).join().collect::<Vec<_>>()` yields, in ascending index
// order, the current handle of every index in alive ∪ raised. Justification: Join::join = JoinIter::new, JoinIter::next and the
// entities member's open/get are verified in unit `join`; Iterator::collect calls next until None (std).
#[verifier::external_body]
pub fn collect_entities_join(ents: &EntitiesRes) -> (r: Vec<Entity>)
    requires ents.alloc.wf(), ents.alloc.headroom_n(2),
    ensures
        r@.len() == sorted_seq(ents.alloc.alive@ + ents.alloc.raised@).len(),
        forall|j: int| 0 <= j < r@.len() ==> (#[trigger] r@[j]).0 == sorted_seq(ents.alloc.alive@ + ents.alloc.raised@)[j]
            && r@[j].1.0@ == ents.alloc.cur_gen(r@[j].0),
{ unimplemented!() }
