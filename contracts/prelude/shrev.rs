// TRUSTED: stand-in for shrev::EventChannel<E>: `single_write` appends one event; a reader registered earlier
// receives the appended events in order (shrev's documented behaviour). View = everything written so far.
#[verifier::external_body]
#[verifier::reject_recursive_types(E)]
pub struct EventChannel<E> { x: core::marker::PhantomData<E> }
impl<E> EventChannel<E> {
    pub uninterp spec fn view(&self) -> Seq<E>;
    // Default::default() / EventChannel::new(): nothing written yet
    #[verifier::external_body]
    pub fn default() -> (r: Self) ensures r@ == Seq::<E>::empty() { unimplemented!() }
    #[verifier::external_body]
    pub fn single_write(&mut self, event: E)
        ensures final(self)@ == old(self)@.push(event)
    { unimplemented!() }
}
// TRUSTED: crate::storage::sync_unsafe_cell::SyncUnsafeCell<T> reached through `&mut self` is plain exclusive access
// (UnsafeCell::get_mut). `get()` is modelled as handing out a shared reference (so `unsafe { &*ptr }` is a reborrow); mutation through
// it (`&mut *ptr` from `&self`, used by shared_get_mut) exists only under the N3 sequentialisation, where it is rewritten to get_mut().
#[verifier::external_body]
#[verifier::reject_recursive_types(T)]
pub struct SyncUnsafeCell<T> { x: core::marker::PhantomData<T> }
impl<T> SyncUnsafeCell<T> {
    pub uninterp spec fn inner(&self) -> T;
    #[verifier::external_body]
    pub fn new(value: T) -> (r: Self) ensures r.inner() == value { unimplemented!() }
    #[verifier::external_body]
    pub fn get(&self) -> (r: &T)
        ensures *r == self.inner()
    { unimplemented!() }
    #[verifier::external_body]
    pub fn get_mut(&mut self) -> (r: &mut T)
        ensures *r == old(self).inner(), final(self).inner() == *final(r)
    { unimplemented!() }
}
