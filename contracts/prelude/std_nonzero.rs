// TRUSTED: stand-in for std::num::NonZeroI32 (contract = std documentation).
// `get() != 0` is the type's invariant; every exec constructor below demands it.
#[derive(Clone, Copy, PartialEq, Eq, Structural, Debug)]
pub struct NonZeroI32 { pub v: i32 }
impl NonZeroI32 {
    pub open spec fn view(self) -> i32 { self.v }
    #[verifier::external_body]
    pub fn get(self) -> (r: i32) ensures r == self@, r != 0 { self.v }
    #[verifier::external_body]
    pub fn new(v: i32) -> (r: Option<NonZeroI32>)
        ensures v == 0 ==> r.is_none(), v != 0 ==> r.is_some() && r.unwrap()@ == v
    { if v == 0 { None } else { Some(NonZeroI32 { v }) } }
    #[verifier::external_body]
    pub unsafe fn new_unchecked(v: i32) -> (r: NonZeroI32)
        requires v != 0
        ensures r@ == v
    { NonZeroI32 { v } }
}
