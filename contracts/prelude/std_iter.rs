// TRUSTED: Vec::extend appends exactly the items its argument yields, in order.
// `iter_seq(it)` names that sequence; for `slice.iter().map(f)` it is the iterator's
// (finite) `remaining()` sequence, which vstd ties to the slice and to f's postcondition.
pub uninterp spec fn iter_seq<I: IntoIterator>(it: I) -> Seq<I::Item>;
pub assume_specification<T, A: std::alloc::Allocator, I: IntoIterator<Item = T>>[<Vec<T, A> as Extend<T>>::extend](v: &mut Vec<T, A>, it: I)
    ensures final(v)@ == old(v)@ + iter_seq(it);
pub broadcast axiom fn axiom_iter_seq_map_slice<'a, T, F: FnMut<(&'a T,)>>(m: core::iter::Map<core::slice::Iter<'a, T>, F>)
    ensures #[trigger] iter_seq(m) == vstd::std_specs::iter::IteratorSpec::remaining(&m), vstd::std_specs::iter::IteratorSpec::will_return_none(&m);

// TRUSTED: Option::filter (std documentation): keeps Some(x) iff the predicate holds for &x
pub assume_specification<T, P: FnOnce(&T) -> bool>[Option::<T>::filter](o: Option<T>, p: P) -> (r: Option<T>)
    requires o is Some ==> p.requires((&o->Some_0,)),
    ensures
        o is None ==> r is None,
        o is Some ==> (r is Some ==> r == o && p.ensures((&o->Some_0,), true)) && (r is None ==> p.ensures((&o->Some_0,), false));
