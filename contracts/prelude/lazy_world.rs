// TRUSTED: stand-in for shred::World as seen by a queued lazy action (src/world/lazy.rs): the entities resource and, per component
// type C, the storage resource MaskedStorage<C>. `fetch_write_storage` is the N10 target of `SystemData::fetch(world)` for a
// `WriteStorage<C>`: it borrows exactly those two resources (what the handle borrows is C11's subject, proved in unit `data`).
#[verifier::external_body]
pub struct World { x: u8 }
impl World {
    pub uninterp spec fn ents(&self) -> EntitiesRes;
    pub uninterp spec fn comp<C: Component>(&self) -> MaskedStorage<C>;
}
#[verifier::external_body]
pub fn fetch_write_storage<'a, C: Component>(world: &'a mut World) -> (r: Storage<'a, C, &'a mut MaskedStorage<C>>)
    ensures
        *r.entities == old(world).ents(), *r.data == old(world).comp::<C>(),
        final(world).comp::<C>() == *final(r.data), final(world).ents() == old(world).ents(),
{ unimplemented!() }
