// TRUSTED in unit `changeset`: DenseVecStorage<T> satisfies the trait-level storage contract.
// (Its real unsafe code is checked against that contract by the bounded Kani harnesses of C04, not by Verus.)
#[verifier::external_body]
#[verifier::reject_recursive_types(T)]
pub struct DenseVecStorage<T> { x: core::marker::PhantomData<T> }
impl<T> UnprotectedStorage<T> for DenseVecStorage<T> {
    uninterp spec fn has(&self, id: Index) -> bool;
    uninterp spec fn val(&self, id: Index) -> T;
    uninterp spec fn us_wf(&self) -> bool;
    open spec fn log(&self) -> Seq<ComponentEvent> { Seq::empty() }
    open spec fn ev_insert(&self, id: Index) -> Seq<ComponentEvent> { Seq::empty() }
    open spec fn ev_remove(&self, id: Index) -> Seq<ComponentEvent> { Seq::empty() }
    open spec fn ev_get_mut(&self, id: Index) -> Seq<ComponentEvent> { Seq::empty() }
    #[verifier::external_body]
    unsafe fn clean<B>(&mut self, has: B) where B: BitSetLike { unimplemented!() }
    #[verifier::external_body]
    unsafe fn get(&self, id: Index) -> (r: &T) { unimplemented!() }
    #[verifier::external_body]
    unsafe fn get_mut(&mut self, id: Index) -> (r: &mut T) { unimplemented!() }
    #[verifier::external_body]
    unsafe fn insert(&mut self, id: Index, value: T) { unimplemented!() }
    #[verifier::external_body]
    unsafe fn remove(&mut self, id: Index) -> (r: T) { unimplemented!() }
}

