// TRUSTED stand-in for uuid::Uuid (a 128-bit value; Copy, Eq, Hash): `Uuid::new_v4()` (N10: `uuid_new_v4()`) returns an
// arbitrary value — that random UUIDs do not collide is NOT claimed.
pub type Uuid = u128;
#[verifier::external_body]
pub fn uuid_new_v4() -> (r: Uuid) { unimplemented!() }

// TRUSTED COMPOSITION (used only by the two allocators' `maintain`): `(entities, storage).join().map(|(e, m)| (m.id(), e)).collect()`
// builds the table { id(m) -> e : e is a joined (live) entity whose marker component is m }. The join itself is C06's subject (unit
// join); here the world side is opaque: `marked(ents, st)` names that table. N10 replaces exactly this expression; any other body is
// outside the stub and leaves `maintain` undecided.
#[verifier::external_body]
pub struct EntitiesRes { x: u8 }
#[verifier::external_body]
#[verifier::reject_recursive_types(M)]
pub struct ReadStorage<M> { x: core::marker::PhantomData<M> }
pub uninterp spec fn marked<M, K>(ents: &EntitiesRes, st: &ReadStorage<M>) -> Map<K, Entity>;
#[verifier::external_body]
pub fn collect_marker_join<M, K>(ents: &EntitiesRes, st: &ReadStorage<M>) -> (r: std::collections::HashMap<K, Entity>)
    ensures r@ == marked::<M, K>(ents, st),
{ unimplemented!() }
