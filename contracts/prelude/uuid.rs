// TRUSTED stand-in for uuid::Uuid (a 128-bit value; Copy, Eq, Hash): `Uuid::new_v4()` (N10: `uuid_new_v4()`) returns an
// arbitrary value — that random UUIDs do not collide is NOT claimed.
pub type Uuid = u128;
#[verifier::external_body]
pub fn uuid_new_v4() -> (r: Uuid) { unimplemented!() }
