// TRUSTED: stand-in for the part of shred that src/storage/data.rs and WorldExt::register_with_storage use.
// A world is seen through two ghost sets of resource ids: the resources it holds (`has`) and the storages listed in
// MetaTable<dyn AnyStorage> (`listed`). `rid::<R>()` abstracts ResourceId::new::<R>() (shred: TypeId-based, injective in R).
// fetch / fetch_mut return handles that remember WHICH resource they borrow and HOW (shared / exclusive):
// that is the "actual borrow" the C11 obligations compare with the declared reads()/writes().
pub uninterp spec fn rid<R: ?Sized>() -> int;

#[verifier::external_body]
pub struct ResourceId { x: u8 }
impl ResourceId {
    pub uninterp spec fn view(&self) -> int;
    #[verifier::external_body]
    pub fn new<R>() -> (r: ResourceId) ensures r@ == rid::<R>() { unimplemented!() }
}

#[verifier::external_body]
#[verifier::reject_recursive_types(R)]
pub struct Fetch<'a, R> { x: &'a R }
impl<'a, R> Fetch<'a, R> {
    pub open spec fn borrowed(&self) -> int { rid::<R>() }
}
#[verifier::external_body]
#[verifier::reject_recursive_types(R)]
pub struct FetchMut<'a, R> { x: &'a R }
impl<'a, R> FetchMut<'a, R> {
    pub open spec fn borrowed(&self) -> int { rid::<R>() }
}

#[verifier::external_body]
pub struct World { x: u8 }
#[verifier::external_body]
#[verifier::reject_recursive_types(R)]
pub struct Entry<'a, R> { w: &'a mut World, p: core::marker::PhantomData<R> }

#[verifier::external_body]
#[verifier::reject_recursive_types(T)]
pub struct MetaTable<T: ?Sized> { p: core::marker::PhantomData<T> }
#[verifier::external_body]
pub struct AnyStorageDyn { x: u8 }   // stands for `dyn AnyStorage`

impl World {
    pub uninterp spec fn has(&self, r: int) -> bool;
    pub uninterp spec fn listed(&self, r: int) -> bool;

    #[verifier::external_body]
    pub fn fetch<R>(&self) -> (r: Fetch<'_, R>) requires self.has(rid::<R>()) { unimplemented!() }
    #[verifier::external_body]
    pub fn fetch_mut<R>(&self) -> (r: FetchMut<'_, R>) requires self.has(rid::<R>()) { unimplemented!() }

    // entry::<R>().or_insert_with(f): afterwards the world holds R; nothing else changes
    #[verifier::external_body]
    pub fn entry_or_insert_with<R, F: FnOnce() -> R>(&mut self, f: F)
        requires f.requires(())
        ensures
            final(self).has(rid::<R>()),
            forall|x: int| #![trigger final(self).has(x)] x != rid::<R>() ==> final(self).has(x) == old(self).has(x),
            forall|x: int| #![trigger final(self).listed(x)] final(self).listed(x) == old(self).listed(x),
    { unimplemented!() }

    #[verifier::external_body]
    pub fn has_value<R>(&self) -> (r: bool) ensures r == self.has(rid::<R>()) { unimplemented!() }
    #[verifier::external_body]
    pub fn insert<R>(&mut self, r: R)
        ensures
            final(self).has(rid::<R>()),
            forall|x: int| #![trigger final(self).has(x)] x != rid::<R>() ==> final(self).has(x) == old(self).has(x),
            forall|x: int| #![trigger final(self).listed(x)] final(self).listed(x) == old(self).listed(x),
    { unimplemented!() }

    // fetch_mut::<MetaTable<dyn AnyStorage>>().register::<R>(): afterwards R is listed; nothing else changes
    #[verifier::external_body]
    pub fn meta_table_register<R>(&mut self)
        ensures
            final(self).listed(rid::<R>()),
            forall|x: int| #![trigger final(self).listed(x)] x != rid::<R>() ==> final(self).listed(x) == old(self).listed(x),
            forall|x: int| #![trigger final(self).has(x)] final(self).has(x) == old(self).has(x),
    { unimplemented!() }
}

// opaque resources
#[verifier::external_body]
pub struct EntitiesRes { x: u8 }
#[verifier::external_body]
#[verifier::reject_recursive_types(T)]
pub struct MaskedStorage<T> { p: core::marker::PhantomData<T> }
impl<T> MaskedStorage<T> {
    #[verifier::external_body]
    pub fn new<S>(inner: S) -> (r: MaskedStorage<T>) { unimplemented!() }
}
pub trait TryDefault: Sized {
    fn unwrap_default() -> Self;
}
pub trait Component: Sized {
    type Storage: TryDefault;
}
