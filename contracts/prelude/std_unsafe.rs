// TRUSTED / MODEL: stand-ins for the unsafe primitives used by src/storage/storages.rs.
//  * MaybeUninit<T>: a slot that is either uninitialised (`mv() is None`) or holds a value. `assume_init*` REQUIRE an
//    initialised slot (Rust: undefined behaviour otherwise); `write` initialises without dropping.
//  * SyncUnsafeCell<T> (src/storage/sync_unsafe_cell.rs, a #[repr(transparent)] wrapper of core::cell::UnsafeCell) is
//    modelled as a plain cell: `get()` hands out a shared reference instead of a raw pointer, so `unsafe { &*ptr }` in
//    the extracted code is an ordinary reborrow. Interior mutability through `&self` (`shared_get_mut`, used only by
//    parallel joins) is therefore NOT covered; those functions are not extracted.
//  * `vec_get_unchecked(_mut)`: N19 target for `X.get_unchecked(i)` / `X.get_unchecked_mut(i)`; the documented safety
//    condition (index in bounds) is the precondition.
//  * `Vec::set_len(n)`: REQUIRES n <= capacity (its documented safety condition); the first min(old len, n) elements are
//    kept; elements beyond the old length are arbitrary (for MaybeUninit elements: unspecified `mv()`).
//    Capacity is an uninterpreted function `vec_cap` of the vector with cap >= len; `vec_reserve(v, d)` (N10 target of
//    `v.reserve(d)`) guarantees cap >= len + d and keeps the content (allocation failure aborts: not modelled);
//    `vec_capacity(v)` (N10 target of `v.capacity()`) reads it.
//  * 64-bit target: `usize` is 8 bytes.
global size_of usize == 8;

#[verifier::external_body]
#[verifier::accept_recursive_types(T)]
pub struct MaybeUninit<T> { x: core::mem::MaybeUninit<T> }
impl<T> MaybeUninit<T> {
    pub uninterp spec fn mv(&self) -> Option<T>;
    #[verifier::external_body]
    pub unsafe fn assume_init(self) -> (r: T)
        requires self.mv() is Some
        ensures r == self.mv()->0
    { unimplemented!() }
    #[verifier::external_body]
    pub unsafe fn assume_init_ref(&self) -> (r: &T)
        requires self.mv() is Some
        ensures *r == self.mv()->0
    { unimplemented!() }
    #[verifier::external_body]
    pub unsafe fn assume_init_mut(&mut self) -> (r: &mut T)
        requires old(self).mv() is Some
        ensures *r == old(self).mv()->0, final(self).mv() == Some(*final(r))
    { unimplemented!() }
    // the real `write` returns `&mut T`; every use in storages.rs discards it
    #[verifier::external_body]
    pub fn write(&mut self, v: T)
        ensures final(self).mv() == Some(v)
    { unimplemented!() }
}
impl<T: Copy> Clone for MaybeUninit<T> {
    #[verifier::external_body]
    fn clone(&self) -> (r: Self) ensures r == *self { unimplemented!() }
}
impl<T: Copy> Copy for MaybeUninit<T> {}

pub struct UnsafeCell<T> { pub v: T }
impl<T> UnsafeCell<T> {
    pub fn into_inner(self) -> (r: T) ensures r == self.v { self.v }
}
pub struct SyncUnsafeCell<T>(pub UnsafeCell<T>);
impl<T> SyncUnsafeCell<T> {
    pub open spec fn cv(&self) -> T { self.0.v }
    pub fn new(value: T) -> (r: Self) ensures r.cv() == value { SyncUnsafeCell(UnsafeCell { v: value }) }
    // MODEL: UnsafeCell::get returns `*mut T`; here a shared reference to the content
    pub fn get(&self) -> (r: &T) ensures *r == self.cv() { &self.0.v }
    pub fn get_mut(&mut self) -> (r: &mut T)
        ensures *r == old(self).cv(), final(self).cv() == *final(r)
    { &mut self.0.v }
}

#[verifier::external_body]
pub unsafe fn vec_get_unchecked<T>(v: &Vec<T>, i: usize) -> (r: &T)
    requires i < v.len()
    ensures *r == v@[i as int]
{ unsafe { v.get_unchecked(i) } }
#[verifier::external_body]
pub unsafe fn vec_get_unchecked_mut<T>(v: &mut Vec<T>, i: usize) -> (r: &mut T)
    requires i < old(v).len()
    ensures *r == old(v)@[i as int], final(v)@ == old(v)@.update(i as int, *final(r))
{ unsafe { v.get_unchecked_mut(i) } }

pub uninterp spec fn vec_cap<T>(v: &Vec<T>) -> nat;
pub broadcast axiom fn axiom_vec_cap<T>(v: &Vec<T>)
    ensures #[trigger] vec_cap(v) >= v@.len();
#[verifier::external_body]
pub fn vec_reserve<T>(v: &mut Vec<T>, additional: usize)
    ensures final(v)@ == old(v)@, vec_cap(final(v)) >= old(v)@.len() + additional
{ v.reserve(additional) }
#[verifier::external_body]
pub fn vec_capacity<T>(v: &Vec<T>) -> (r: usize)
    ensures r == vec_cap(v)
{ v.capacity() }
// N10 target of `v.set_len(n)`
#[verifier::external_body]
pub unsafe fn vec_set_len<T>(v: &mut Vec<T>, n: usize)
    requires n <= vec_cap(old(v))
    ensures
        final(v)@.len() == n,
        forall|i: int| 0 <= i < n && i < old(v)@.len() ==> final(v)@[i] == old(v)@[i],
{ unsafe { v.set_len(n) } }

pub assume_specification<T: core::cmp::Ord> [core::cmp::min] (a: T, b: T) -> (r: T)
    ensures r == a || r == b;

// N10 target of `SyncUnsafeCell::as_cell_of_slice(X).get()` (a pointer cast `&[SyncUnsafeCell<T>]` -> `*mut [T]`, both
// #[repr(transparent)]): the same elements seen without their cells; `unsafe { &*ptr }` after it is a reborrow
#[verifier::external_body]
pub fn cells_as_slice<T>(s: &[SyncUnsafeCell<T>]) -> (r: &[T])
    ensures r@.len() == s@.len(), forall|i: int| 0 <= i < s@.len() ==> r@[i] == (#[trigger] s@[i]).cv(),
{ unimplemented!() }

// core::ptr::drop_in_place (N10 -> raw_drop_in_place): runs the destructor of the pointee; what the slot holds afterwards is NOT
// specified (logically uninitialised), so code relying on it cannot be verified against a contract that mentions the slot
#[verifier::external_body]
pub unsafe fn raw_drop_in_place<T>(p: &mut T) { unimplemented!() }
