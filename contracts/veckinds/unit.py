# Unit `veckinds`: VecStorage / DefaultVecStorage raw operations under mask-relative contracts (C04 kinds; the safety
# preconditions of the unchecked accesses and of assume_init* are discharged here for every caller mask)
import importlib.util, os
from vx.unit import Unit, E

ST = 'src/storage/storages.rs'
N19 = [('N10', r'((?:self|\w+)(?:\.\w+)+)\.reserve\(', r'vec_reserve(&mut \1, '),
       ('N10', r'((?:self|\w+)(?:\.\w+)+)\.capacity\(\)', r'vec_capacity(&\1)'),
       ('N10', r'((?:self|\w+)(?:\.\w+)+)\.set_len\(', r'vec_set_len(&mut \1, '),
       ('N19', r'((?:self|\w+)(?:\.\w+)+)\.get_unchecked_mut\(', r'vec_get_unchecked_mut(&mut \1, '),
       ('N19', r'((?:self|\w+)(?:\.\w+)+)\.get_unchecked\(', r'vec_get_unchecked(&\1, ')]
N8 = [('N8', r"Self::AccessMut<'_>", '&mut T')]
N6B = [('N6b', r'for \((\w+), (\w+)\) in ([\w\.]+)\.iter_mut\(\)\.enumerate\(\) \{', r'for i__ in 0..\3.len() { let \1 = i__; let \2 = &mut \3[i__];'),
       ('N1', r'const _: Index = 0u32;', '')]
FRAME_V = 'final(self).0@.len() >= old(self).0@.len() && forall|j: int| 0 <= j < old(self).0@.len() && j != id ==> #[trigger] final(self).0@[j] == old(self).0@[j]'


def build():
    u = Unit('veckinds', prelude=['prelude/hibitset.rs', ('prelude/std_unsafe.rs', 'private'), ('prelude/std_unsafe_vec.rs', 'private')],
             spec=['veckinds/spec.rs'], files=[ST])
    u.struct('src/world/entity.rs', ['type Index'])
    # ---------------- VecStorage
    u.struct(ST, ['struct VecStorage'], attr='#[verifier::reject_recursive_types(T)]')
    VH = 'impl<T> UnprotectedStorage<T> for VecStorage<T>'
    VI = 'impl<T> VecStorage<T>'
    u.fn(ST, ['impl<T> Default for VecStorage<T>', 'fn default'], ret='r', props='C04', key='VecStorage::default', impl_header=VI,
         rules=[('N12', r'Self\(Default::default\(\)\)', 'Self(Vec::new())')],
         ensures=[E('empty', 'r.0@.len() == 0')])
    u.fn(ST, [VH, 'fn get'], ret='r', props='C04', key='VecStorage::get', impl_header=VI, rules=N19,
         requires=[E('at', 'vec_at(self, id)')],
         ensures=[E('val', '*r == vec_val(self, id)')])
    u.fn(ST, [VH, 'fn get_mut'], ret='r', props='C04', key='VecStorage::get_mut', impl_header=VI, rules=N8 + N19,
         requires=[E('at', 'vec_at(old(self), id)')],
         ensures=[E('val', '*r == vec_val(old(self), id) && vec_at(final(self), id) && vec_val(final(self), id) == *final(r)'),
                  E('frame', 'final(self).0@.len() == old(self).0@.len() && forall|j: int| 0 <= j < old(self).0@.len() && j != id ==> #[trigger] final(self).0@[j] == old(self).0@[j]')])
    u.fn(ST, [VH, 'fn insert'], props='C04', key='VecStorage::insert', impl_header=VI, rules=N19,
         requires=[E('wf', 'vec_wf(old(self))')],
         hints=[('after', 'write(v)', '''proof {
            assert forall|m: Set<Index>| #![trigger vec_ok(old(self), m)] vec_ok(old(self), m) implies
                vec_ok(self, m.insert(id as Index)) && (forall|j: Index| m.contains(j) && j != id as Index ==> vec_val(self, j) == vec_val(old(self), j)) by {
                assert forall|i: Index| m.insert(id as Index).contains(i) implies #[trigger] vec_at(self, i) by {
                    if i != id as Index { assert(vec_at(old(self), i)); assert(self.0@[i as int] == old(self).0@[i as int]); }
                }
                assert forall|j: Index| m.contains(j) && j != id as Index implies vec_val(self, j) == vec_val(old(self), j) by {
                    assert(vec_at(old(self), j)); assert(self.0@[j as int] == old(self).0@[j as int]);
                }
            }
         }''')],
         ensures=[E('wf', 'vec_wf(final(self))'), E('val', 'vec_at(final(self), id) && vec_val(final(self), id) == v'),
                  E('frame', FRAME_V),
                  E('ok', 'forall|m: Set<Index>| #![trigger vec_ok(old(self), m)] vec_ok(old(self), m) ==> vec_ok(final(self), m.insert(id)) && forall|j: Index| m.contains(j) && j != id ==> vec_val(final(self), j) == vec_val(old(self), j)')])
    u.fn(ST, [VH, 'fn remove'], ret='r', props='C04', key='VecStorage::remove', impl_header=VI,
         rules=N19 + [('N10', r'ptr::read\(', 'ptr_read(')],
         requires=[E('at', 'vec_at(old(self), id)')],
         ensures=[E('val', 'r == vec_val(old(self), id)'), E('frame', 'final(self).0@ == old(self).0@')])
    # an override of the trait's default `drop` (absent on the pinned tree: the default is `self.remove(id);`): slot-wise frame as for
    # remove; whether the value is actually destroyed exactly once (C08) / in an exception-safe order (C19) is not a postcondition
    REVIEW = [E('destructor_site', 'an override of UnprotectedStorage::drop adds a destructor call site: its ordering w.r.t. the bookkeeping (C19) and its exactly-once accounting (C08) need a contract of their own', 'C19 C08')]
    DROPRULES = [('N10', r'(?:core::|std::)?ptr::drop_in_place\(', 'raw_drop_in_place(')]
    u.fn(ST, [VH, 'fn drop'], props='C04', key='VecStorage::drop', impl_header=VI, optional=True, rules=N19 + DROPRULES + [('N10', r'ptr::read\(', 'ptr_read(')],
         requires=[E('at', 'vec_at(old(self), id)')],
         ensures=[E('frame', 'final(self).0@.len() == old(self).0@.len() && forall|j: int| 0 <= j < old(self).0@.len() && j != id ==> #[trigger] final(self).0@[j] == old(self).0@[j]')],
         review_if_present=REVIEW)
    u.fn(ST, [VH, 'fn clean'], props='C04 C08', key='VecStorage::clean', impl_header=VI, rules=N19 + N6B,
         requires=[E('mask', 'vec_ok(old(self), has_.bview())'), E('wf', 'vec_wf(old(self))')],
         hints=[('block_start', 'if has_.contains(', 'proof { assert(vec_at(old(self), i__ as Index)); }')],
         ensures=[E('len', 'final(self).0@.len() == old(self).0@.len()'),
                  E('dropped', 'forall|i: Index| (i as int) < old(self).0@.len() && has_.bview().contains(i) ==> (#[trigger] final(self).0@[i as int]).cv().mv() is None', 'C08'),
                  E('kept', 'forall|i: Index| (i as int) < old(self).0@.len() && !has_.bview().contains(i) ==> #[trigger] final(self).0@[i as int] == old(self).0@[i as int]')],
         loops={0: dict(invariant=[E('len', 'self.0@.len() == old(self).0@.len()'),
                                   E('todo', 'forall|k: int| i__ <= k < self.0@.len() ==> #[trigger] self.0@[k] == old(self).0@[k]'),
                                   E('done', 'forall|k: int| 0 <= k < i__ ==> (if has_.bview().contains(k as u32) { (#[trigger] self.0@[k]).cv().mv() is None } else { self.0@[k] == old(self).0@[k] })'),
                                   E('wf', 'vec_wf(old(self))'),
                                   E('mask', 'vec_ok(old(self), has_.bview())')])})
    u.fn(ST, ['impl<T> SharedGetMutStorage<T> for VecStorage<T>', 'fn shared_get_mut'], ret='r', props='C04 C06 C13', key='VecStorage::shared_get_mut',
         impl_header=VI, mut_self=True,
         rules=[('N3', r'unsafe \{ self\.0\.get_unchecked\(id as usize\) \}\.get\(\)', 'unsafe { vec_get_unchecked_mut(&mut self.0, id as usize) }.get_mut()')],
         requires=[E('at', 'vec_at(old(self), id)')],
         ensures=[E('val', '*r == vec_val(old(self), id) && vec_at(final(self), id) && vec_val(final(self), id) == *final(r)'),
                  E('frame', 'final(self).0@.len() == old(self).0@.len() && forall|j: int| 0 <= j < old(self).0@.len() && j != id ==> #[trigger] final(self).0@[j] == old(self).0@[j]')])
    SLR = [('N10', r'SyncUnsafeCell::as_cell_of_slice\((.*?)\)\.get\(\)', r'cells_as_slice(\1)')]
    u.fn(ST, ['impl<T> SliceAccess<T> for VecStorage<T>', 'fn as_slice'], ret='r', props='C04', key='VecStorage::as_slice', impl_header=VI,
         rules=SLR + [('N8', r'Self::Element', 'MaybeUninit<T>')],
         ensures=[E('view', 'r@.len() == self.0@.len() && forall|i: int| 0 <= i < self.0@.len() ==> r@[i] == (#[trigger] self.0@[i]).cv()')])
    # ---------------- DefaultVecStorage
    u.struct(ST, ['struct DefaultVecStorage'], attr='#[verifier::reject_recursive_types(T)]')
    DH = 'impl<T> UnprotectedStorage<T> for DefaultVecStorage<T> where T: Default,'
    DI = 'impl<T: DefaultSpec> DefaultVecStorage<T>'
    u.fn(ST, ['impl<T> Default for DefaultVecStorage<T>', 'fn default'], ret='r', props='C04', key='DefaultVecStorage::default', impl_header='impl<T> DefaultVecStorage<T>',
         rules=[('N12', r'Self\(Default::default\(\)\)', 'Self(Vec::new())')],
         ensures=[E('empty', 'r.0@.len() == 0')])
    u.fn(ST, ['impl<T> SliceAccess<T> for DefaultVecStorage<T>', 'fn as_slice'], ret='r', props='C04', key='DefaultVecStorage::as_slice', impl_header='impl<T> DefaultVecStorage<T>',
         rules=SLR + [('N8', r'Self::Element', 'T')],
         ensures=[E('view', 'r@.len() == self.0@.len() && forall|i: int| 0 <= i < self.0@.len() ==> r@[i] == (#[trigger] self.0@[i]).cv()')])
    u.fn(ST, [DH, 'fn drop'], props='C04', key='DefaultVecStorage::drop', impl_header=DI, optional=True, rules=N19 + DROPRULES,
         requires=[E('at', '(id as int) < old(self).0@.len()')],
         ensures=[E('frame', 'final(self).0@.len() == old(self).0@.len() && forall|j: int| 0 <= j < old(self).0@.len() && j != id ==> #[trigger] final(self).0@[j] == old(self).0@[j]'),
                  E('default', 'def_val(final(self), id) == T::default_spec()')],
         review_if_present=REVIEW)
    u.fn(ST, [DH, 'fn clean'], props='C04', key='DefaultVecStorage::clean', impl_header=DI,
         ensures=[E('empty', 'final(self).0@.len() == 0')])
    u.fn(ST, [DH, 'fn get'], ret='r', props='C04', key='DefaultVecStorage::get', impl_header=DI, rules=N19,
         requires=[E('at', '(id as int) < self.0@.len()')],
         ensures=[E('val', '*r == def_val(self, id)')])
    u.fn(ST, [DH, 'fn get_mut'], ret='r', props='C04', key='DefaultVecStorage::get_mut', impl_header=DI, rules=N8 + N19,
         requires=[E('at', '(id as int) < old(self).0@.len()')],
         ensures=[E('val', '*r == def_val(old(self), id) && def_val(final(self), id) == *final(r)'),
                  E('frame', 'final(self).0@.len() == old(self).0@.len() && forall|j: int| 0 <= j < old(self).0@.len() && j != id ==> #[trigger] final(self).0@[j] == old(self).0@[j]')])
    u.fn(ST, ['impl<T> SharedGetMutStorage<T> for DefaultVecStorage<T> where T: Default,', 'fn shared_get_mut'], ret='r', props='C04 C06 C13', key='DefaultVecStorage::shared_get_mut',
         impl_header=DI, mut_self=True,
         rules=[('N3', r'unsafe \{ self\.0\.get_unchecked\(id as usize\) \}\.get\(\)', 'unsafe { vec_get_unchecked_mut(&mut self.0, id as usize) }.get_mut()')],
         requires=[E('at', '(id as int) < old(self).0@.len()')],
         ensures=[E('val', '*r == def_val(old(self), id) && def_val(final(self), id) == *final(r)'),
                  E('frame', 'final(self).0@.len() == old(self).0@.len() && forall|j: int| 0 <= j < old(self).0@.len() && j != id ==> #[trigger] final(self).0@[j] == old(self).0@[j]')])
    u.fn(ST, [DH, 'fn insert'], props='C04', key='DefaultVecStorage::insert', impl_header=DI,
         rules=N19 + [('N10', r'self\.0\.resize_with\(id, Default::default\)', 'vec_resize_with_default(&mut self.0, id)')],
         ensures=[E('val', '(id as int) < final(self).0@.len() && def_val(final(self), id) == v'),
                  E('frame', FRAME_V),
                  E('len', 'final(self).0@.len() == (if old(self).0@.len() <= id { id + 1 } else { old(self).0@.len() as int })'),
                  E('pad', 'forall|j: int| old(self).0@.len() <= j < id ==> (#[trigger] final(self).0@[j]).cv() == T::default_spec()')])
    u.fn(ST, [DH, 'fn remove'], ret='r', props='C04', key='DefaultVecStorage::remove', impl_header=DI,
         rules=N19 + [('N10', r'core::mem::take\(', 'mem_take_default(')],
         requires=[E('at', '(id as int) < old(self).0@.len()')],
         ensures=[E('val', 'r == def_val(old(self), id)'),
                  E('frame', 'final(self).0@.len() == old(self).0@.len() && forall|j: int| 0 <= j < old(self).0@.len() && j != id ==> #[trigger] final(self).0@[j] == old(self).0@[j]'),
                  E('default_left', 'def_val(final(self), id) == T::default_spec()')])
    return u
