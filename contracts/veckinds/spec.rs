// VecStorage / DefaultVecStorage (src/storage/storages.rs): which slots hold a component is known only to the CALLER
// (the mask of MaskedStorage), so their contracts are stated relative to an arbitrary caller-side set `m` of occupied
// indices instead of through the trait-level `has()`:
//   vec_ok(s, m)  — every index in m lies inside the vector and its slot is initialised;
//   def_ok(s, m)  — every index in m lies inside the vector and every other slot inside it holds Default.
pub open spec fn vec_at<T>(s: &VecStorage<T>, id: Index) -> bool {
    (id as int) < s.0@.len() && s.0@[id as int].cv().mv() is Some
}
// "the index used for insertion is a u32 so the indices will never be over u32::MAX" (comment in clean)
pub open spec fn vec_wf<T>(s: &VecStorage<T>) -> bool { s.0@.len() <= 0x1_0000_0000 }
pub open spec fn vec_val<T>(s: &VecStorage<T>, id: Index) -> T { s.0@[id as int].cv().mv()->0 }
pub open spec fn vec_ok<T>(s: &VecStorage<T>, m: Set<Index>) -> bool {
    forall|i: Index| m.contains(i) ==> #[trigger] vec_at(s, i)
}
pub open spec fn def_val<T>(s: &DefaultVecStorage<T>, id: Index) -> T { s.0@[id as int].cv() }
pub open spec fn def_ok<T: DefaultSpec>(s: &DefaultVecStorage<T>, m: Set<Index>) -> bool {
    &&& forall|i: Index| m.contains(i) ==> (i as int) < s.0@.len()
    &&& forall|i: Index| (i as int) < s.0@.len() && !m.contains(i) ==> #[trigger] def_val(s, i) == T::default_spec()
}

// the element-wise postconditions of DefaultVecStorage::insert / remove, restated relative to a caller mask:
// occupied indices stay inside the vector and every unoccupied slot inside it still holds Default
//@props C04
pub proof fn lemma_def_insert<T: DefaultSpec>(o: &DefaultVecStorage<T>, n: &DefaultVecStorage<T>, id: Index, m: Set<Index>)
    requires
        def_ok(o, m),
        n.0@.len() == (if o.0@.len() <= id { id + 1 } else { o.0@.len() as int }),
        forall|j: int| 0 <= j < o.0@.len() && j != id ==> #[trigger] n.0@[j] == o.0@[j],
        forall|j: int| o.0@.len() <= j < id ==> (#[trigger] n.0@[j]).cv() == T::default_spec(),
    ensures def_ok(n, m.insert(id)),
{
    assert forall|i: Index| (i as int) < n.0@.len() && !m.insert(id).contains(i) implies #[trigger] def_val(n, i) == T::default_spec() by {
        if (i as int) < o.0@.len() { assert(n.0@[i as int] == o.0@[i as int]); assert(def_val(o, i) == T::default_spec()); }
    }
}
//@props C04
pub proof fn lemma_def_remove<T: DefaultSpec>(o: &DefaultVecStorage<T>, n: &DefaultVecStorage<T>, id: Index, m: Set<Index>)
    requires
        def_ok(o, m),
        n.0@.len() == o.0@.len(),
        forall|j: int| 0 <= j < o.0@.len() && j != id ==> #[trigger] n.0@[j] == o.0@[j],
        (id as int) < n.0@.len() ==> def_val(n, id) == T::default_spec(),
    ensures def_ok(n, m.remove(id)),
{
    assert forall|i: Index| (i as int) < n.0@.len() && !m.remove(id).contains(i) implies #[trigger] def_val(n, i) == T::default_spec() by {
        if i != id { assert(n.0@[i as int] == o.0@[i as int]); assert(def_val(o, i) == T::default_spec()); }
    }
}
