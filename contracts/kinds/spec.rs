// Storage kinds (src/storage/storages.rs) against the trait-level storage contract: vocabulary.
// DenseVecStorage: `data` holds the values densely, `entity_id[k]` is the index owning `data[k]`, and
// `data_id[i]` (initialised only for indices that were inserted at some point) is the position of index i's value.
// The redirection tables, without the values:
pub ghost struct DenseTab {
    pub data_id: Seq<MaybeUninit<Index>>,
    pub entity_id: Seq<Index>,
    pub n: nat,                            // data.len()
}
pub open spec fn dense_tab<T>(s: &DenseVecStorage<T>) -> DenseTab {
    DenseTab { data_id: s.data_id@, entity_id: s.entity_id@, n: s.data@.len() }
}
pub open spec fn tab_slot(t: DenseTab, id: Index) -> int { t.data_id[id as int].mv()->0 as int }
// index `id` owns a value: its redirection entry is initialised, in range, and points back at it
pub open spec fn tab_at(t: DenseTab, id: Index) -> bool {
    &&& (id as int) < t.data_id.len()
    &&& t.data_id[id as int].mv() is Some
    &&& tab_slot(t, id) < t.n
    &&& t.entity_id[tab_slot(t, id)] == id
}
// representation invariant: the tables have the same length and every dense position is redirected to by its owner
pub open spec fn tab_wf(t: DenseTab) -> bool {
    &&& t.entity_id.len() == t.n
    &&& forall|k: int| #![trigger t.entity_id[k]] 0 <= k < t.n ==>
            (t.entity_id[k] as int) < t.data_id.len() && t.data_id[t.entity_id[k] as int].mv() is Some && tab_slot(t, t.entity_id[k]) == k
}
pub open spec fn dense_wf<T>(s: &DenseVecStorage<T>) -> bool { tab_wf(dense_tab(s)) }
pub open spec fn dense_has<T>(s: &DenseVecStorage<T>, id: Index) -> bool { tab_wf(dense_tab(s)) && tab_at(dense_tab(s), id) }
pub open spec fn dense_val<T>(s: &DenseVecStorage<T>, id: Index) -> T {
    if dense_has(s, id) { s.data@[tab_slot(dense_tab(s), id)].cv() } else { arbitrary() }
}

// pigeonhole: pairwise distinct values below m are at most m many
pub proof fn lemma_pigeon(s: Seq<int>, m: nat)
    requires
        forall|i: int| #![trigger s[i]] 0 <= i < s.len() ==> 0 <= s[i] < m,
        forall|i: int, j: int| 0 <= i < j < s.len() ==> s[i] != s[j],
    ensures s.len() <= m,
    decreases m,
{
    if m == 0 {
        if s.len() > 0 { let x = s[0]; assert(0 <= x); assert(x < m); assert(false); }
    } else if exists|p: int| 0 <= p < s.len() && s[p] == m - 1 {
        let p = choose|p: int| 0 <= p < s.len() && s[p] == m - 1;
        let t = s.remove(p);
        assert forall|i: int| #![trigger t[i]] 0 <= i < t.len() implies 0 <= t[i] < m - 1 by {
            if i < p { assert(t[i] == s[i]); assert(s[i] != s[p]); } else { assert(t[i] == s[i + 1]); assert(s[p] != s[i + 1]); }
        }
        assert forall|i: int, j: int| 0 <= i < j < t.len() implies t[i] != t[j] by {
            let a = if i < p { i } else { i + 1 };
            let b = if j < p { j } else { j + 1 };
            assert(t[i] == s[a] && t[j] == s[b]);
        }
        lemma_pigeon(t, (m - 1) as nat);
    } else {
        assert forall|i: int| #![trigger s[i]] 0 <= i < s.len() implies 0 <= s[i] < m - 1 by {}
        lemma_pigeon(s, (m - 1) as nat);
    }
}
// "the length will be at most Index::MAX if there is still an entity without this component" (comment in insert)
//@props C04
pub proof fn lemma_tab_room(t: DenseTab, id: Index)
    requires tab_wf(t), !tab_at(t, id),
    ensures t.n < 0x1_0000_0000,
{
    let n = t.n as int;
    let q = Seq::new((n + 1) as nat, |k: int| if k < n { t.entity_id[k] as int } else { id as int });
    assert forall|i: int, j: int| 0 <= i < j < q.len() implies q[i] != q[j] by {
        assert(tab_slot(t, t.entity_id[i]) == i);
        if j < n { assert(tab_slot(t, t.entity_id[j]) == j); }
    }
    lemma_pigeon(q, 0x1_0000_0000);
}
// effect of `insert` on the tables (`n.data_id` may have been extended by uninitialised entries first)
//@props C04
pub proof fn lemma_tab_insert(o: DenseTab, n: DenseTab, id: Index)
    requires
        tab_wf(o), !tab_at(o, id),
        n.n == o.n + 1,
        n.entity_id == o.entity_id.push(id),
        n.data_id.len() >= o.data_id.len(), n.data_id.len() > id,
        n.data_id[id as int].mv() == Some(o.n as u32),
        forall|j: int| 0 <= j < o.data_id.len() && j != id ==> #[trigger] n.data_id[j] == o.data_id[j],
    ensures
        tab_wf(n), tab_at(n, id), tab_slot(n, id) == o.n,
        forall|j: Index| j != id ==> #[trigger] tab_at(n, j) == tab_at(o, j),
        forall|j: Index| j != id && tab_at(o, j) ==> #[trigger] tab_slot(n, j) == tab_slot(o, j),
{
    lemma_tab_room(o, id);
    assert forall|k: int| #![trigger n.entity_id[k]] 0 <= k < n.n implies
        (n.entity_id[k] as int) < n.data_id.len() && n.data_id[n.entity_id[k] as int].mv() is Some && tab_slot(n, n.entity_id[k]) == k by {
        if k < o.n {
            let e = o.entity_id[k];
            assert(n.entity_id[k] == e);
            assert(tab_slot(o, e) == k);
            assert(e != id);
            assert(n.data_id[e as int] == o.data_id[e as int]);
        }
    }
    assert forall|j: Index| j != id implies #[trigger] tab_at(n, j) == tab_at(o, j) by {
        if (j as int) < o.data_id.len() {
            assert(n.data_id[j as int] == o.data_id[j as int]);
            if tab_at(n, j) && tab_slot(n, j) == o.n { assert(n.entity_id[o.n as int] == id); }
        } else if tab_at(n, j) {
            let s = tab_slot(n, j);
            if s < o.n { assert((o.entity_id[s] as int) < o.data_id.len()); }
        }
    }
    assert forall|j: Index| j != id && tab_at(o, j) implies #[trigger] tab_slot(n, j) == tab_slot(o, j) by {
        assert(n.data_id[j as int] == o.data_id[j as int]);
    }
}
// effect of `remove` on the tables and on any dense sequence that is swap-removed alongside
//@props C04 C16
pub proof fn lemma_tab_remove<D>(o: DenseTab, n: DenseTab, od: Seq<D>, nd: Seq<D>, id: Index)
    requires
        tab_wf(o), tab_at(o, id), od.len() == o.n,
        n.n == o.n - 1,
        n.data_id.len() == o.data_id.len(),
        n.data_id[o.entity_id.last() as int].mv() == Some(tab_slot(o, id) as u32),
        forall|j: int| 0 <= j < o.data_id.len() && j != o.entity_id.last() ==> #[trigger] n.data_id[j] == o.data_id[j],
        n.entity_id == o.entity_id.update(tab_slot(o, id), o.entity_id.last()).drop_last(),
        nd == od.update(tab_slot(o, id), od.last()).drop_last(),
    ensures
        tab_wf(n), !tab_at(n, id),
        forall|j: Index| j != id ==> #[trigger] tab_at(n, j) == tab_at(o, j),
        forall|j: Index| j != id && tab_at(o, j) ==> nd[#[trigger] tab_slot(n, j)] == od[tab_slot(o, j)],
{
    let did = tab_slot(o, id);
    let last = o.entity_id.last();
    assert(tab_slot(o, last) == o.n - 1);
    assert forall|k: int| #![trigger n.entity_id[k]] 0 <= k < n.n implies
        (n.entity_id[k] as int) < n.data_id.len() && n.data_id[n.entity_id[k] as int].mv() is Some && tab_slot(n, n.entity_id[k]) == k by {
        if k == did {
            assert(n.entity_id[k] == last);
        } else {
            let e = o.entity_id[k];
            assert(n.entity_id[k] == e);
            assert(tab_slot(o, e) == k);
            assert(e != last);
            assert(n.data_id[e as int] == o.data_id[e as int]);
        }
    }
    assert forall|j: Index| j != id implies #[trigger] tab_at(n, j) == tab_at(o, j) by {
        if j == last {
            assert(tab_at(o, j));
        } else if (j as int) < o.data_id.len() {
            assert(n.data_id[j as int] == o.data_id[j as int]);
            if tab_at(o, j) {
                let s = tab_slot(o, j);
                assert(s != did);
                assert(s != o.n - 1);
            }
            if tab_at(n, j) {
                let s = tab_slot(n, j);
                if s == did { assert(n.entity_id[s] == last); }
            }
        }
    }
    assert forall|j: Index| j != id && tab_at(o, j) implies nd[#[trigger] tab_slot(n, j)] == od[tab_slot(o, j)] by {
        if j != last {
            assert(n.data_id[j as int] == o.data_id[j as int]);
            let s = tab_slot(o, j);
            assert(s != did);
            assert(s != o.n - 1);
        }
    }
    if tab_at(n, id) {
        if id == last { } else {
            assert(n.data_id[id as int] == o.data_id[id as int]);
            assert(n.entity_id[did] == last);
        }
    }
}

// HashMapStorage / BTreeStorage: the map's key set is the content
pub open spec fn map_val<T>(m: Map<Index, SyncUnsafeCell<T>>, id: Index) -> T {
    if m.dom().contains(id) { m[id].cv() } else { arbitrary() }
}

// SPECIFICATION of the slice view (trait SliceAccess<T>, src/storage/storages.rs:18-27; its methods have no bodies there):
// as_slice() exposes exactly `slice_view()`
pub trait SliceAccess<T> {
    type Element;
    spec fn slice_view(&self) -> Seq<Self::Element>;
    fn as_slice(&self) -> (r: &[Self::Element])
        ensures /*@L:trait.as_slice.view*/ r@ == self.slice_view() /*@E*/;
}
