    // abstract content in terms of the real fields (has() is only meaningful on a well-formed table)
    spec fn us_wf(&self) -> bool { dense_wf(self) }
    spec fn has(&self, id: Index) -> bool { dense_has(self, id) }
    spec fn val(&self, id: Index) -> T { dense_val(self, id) }
    spec fn log(&self) -> Seq<ComponentEvent> { Seq::empty() }
    spec fn ev_insert(&self, id: Index) -> Seq<ComponentEvent> { Seq::empty() }
    spec fn ev_remove(&self, id: Index) -> Seq<ComponentEvent> { Seq::empty() }
    spec fn ev_get_mut(&self, id: Index) -> Seq<ComponentEvent> { Seq::empty() }
