# Unit `kinds`: the built-in storage kinds (src/storage/storages.rs) as REAL `impl UnprotectedStorage<T>` blocks checked
# against the trait-level storage contract (C04 kinds, C08 support, C16's inner storage).
import importlib.util, os
from vx.unit import Unit, E

_here = os.path.dirname(os.path.abspath(__file__))
_cs = importlib.util.spec_from_file_location('storage_common', os.path.join(_here, '..', 'storage', 'common.py'))
_common = importlib.util.module_from_spec(_cs)
_cs.loader.exec_module(_common)

ST = 'src/storage/storages.rs'
N19 = [('N10', r'((?:self|\w+)(?:\.\w+)+)\.reserve\(', r'vec_reserve(&mut \1, '),
       ('N10', r'((?:self|\w+)(?:\.\w+)+)\.capacity\(\)', r'vec_capacity(&\1)'),
       ('N10', r'((?:self|\w+)(?:\.\w+)+)\.set_len\(', r'vec_set_len(&mut \1, '),
       ('N19', r'((?:self|\w+)(?:\.\w+)+)\.get_unchecked_mut\(', r'vec_get_unchecked_mut(&mut \1, '),
       ('N19', r'((?:self|\w+)(?:\.\w+)+)\.get_unchecked\(', r'vec_get_unchecked(&\1, ')]
N8 = [('N8', r"Self::AccessMut<'_>", '&mut T')]
TRAIT = lambda m, labels: [E('trait.%s.%s' % (m, l), 'inherited postcondition of UnprotectedStorage::%s (%s)' % (m, l), p) for (l, p) in labels]
METHODS = [('clean', [('empty', 'C04 C08'), ('wf', 'C04 C08'), ('events', 'C12')]),
           ('get', [('val', 'C04')]),
           ('get_mut', [('val', 'C04'), ('wf', 'C04'), ('frame', 'C04'), ('events', 'C12')]),
           ('insert', [('wf', 'C04'), ('val', 'C04'), ('frame', 'C04'), ('events', 'C12')]),
           ('remove', [('val', 'C04 C08'), ('wf', 'C04 C08'), ('frame', 'C04 C08'), ('events', 'C12')])]


REVIEW = [E('destructor_site', 'an override of UnprotectedStorage::drop adds a destructor call site: its ordering w.r.t. the bookkeeping (C19) and its exactly-once accounting (C08) need a contract of their own', 'C19 C08')]
# `ptr::drop_in_place(p)` / `drop(x)`: the destructor runs; nothing else is known (unspecified stub raw_drop)
DROPRULES = [('N10', r'(?:core::|std::)?ptr::drop_in_place\(', 'raw_drop_in_place(')]
SGM_REQ = [E('has', 'old(self).has(id)')]
SGM_ENS = [E('val', '*r == old(self).val(id) && final(self).val(id) == *final(r)', 'C04 C06 C13'),
           E('wf', 'old(self).us_wf() ==> final(self).us_wf()', 'C04'),
           E('frame', '(forall|j: Index| #![trigger final(self).has(j)] final(self).has(j) == old(self).has(j)) && (forall|j: Index| #![trigger final(self).val(j)] j != id ==> final(self).val(j) == old(self).val(j))', 'C04 C06 C13')]
# N3 (sequentialisation of the shared-access variant used by non-lending / parallel joins): `&self` -> `&mut self`, the cell's `get()` ->
# `get_mut()`, so that `unsafe { &mut *ptr }` is an ordinary reborrow; what is lost is exactly the aliasing between simultaneous callers (C07)


def add_dense(u, extra=''):
    u.struct(ST, ['struct DenseVecStorage'], attr='#[verifier::reject_recursive_types(T)]')
    DH = 'impl<T> UnprotectedStorage<T> for DenseVecStorage<T>'
    u.groups['impl_dense'] = dict(header=DH, pre='kinds/impl_dense.rs', private=False)
    # N12: `Default::default` emitted as an inherent constructor (a public std trait's method cannot carry a postcondition over
    # the unit-private contract vocabulary); its callers name it explicitly
    u.fn(ST, ['impl<T> Default for DenseVecStorage<T>', 'fn default'], ret='r', props='C04 C16', key='DenseVecStorage::default',
         impl_header='impl<T> DenseVecStorage<T>',
         ensures=[E('wf', 'r.us_wf()'), E('empty', 'forall|i: Index| !r.has(i)')])
    for (m, labels) in METHODS:
        u.fn(ST, [DH, 'fn ' + m], props='C04 C16', group='impl_dense', key='DenseVecStorage::' + m,
             rules=N8 + N19, hint_obligations=TRAIT(m, [(l, (p + ' ' + extra).strip()) for (l, p) in labels]) +
             ([E('tables_first', 'the redirection tables are emptied before the data vector runs the destructors', 'C19')] if m == 'clean' else []), **DENSE.get(m, {}))
    # an override of the trait's default `drop` (absent on the pinned tree: the default is `self.remove(id);`) has to meet the trait's drop
    # contract (C04); whether a NEW destructor call site keeps the exception-safety ordering / the exactly-once accounting cannot be a
    # postcondition: undecided for C19 / C08 while such an override exists
    u.fn(ST, [DH, 'fn drop'], props='C04 C16', group='impl_dense', key='DenseVecStorage::drop', optional=True, rules=N8 + N19 + DROPRULES,
         hint_obligations=TRAIT('drop', [('gone', 'C04'), ('wf', 'C04'), ('frame', 'C04'), ('events', 'C12')]), review_if_present=REVIEW)


def add_map_kind(u, name):
    g = 'impl_' + name.lower()
    H = 'impl<T> UnprotectedStorage<T> for %s<T>' % name
    u.struct(ST, ['struct ' + name], attr='#[verifier::reject_recursive_types(T)]')
    pre = '''    spec fn us_wf(&self) -> bool { true }
    spec fn has(&self, id: Index) -> bool { self.0@.dom().contains(id) }
    spec fn val(&self, id: Index) -> T { map_val(self.0@, id) }
    spec fn log(&self) -> Seq<ComponentEvent> { Seq::empty() }
    spec fn ev_insert(&self, id: Index) -> Seq<ComponentEvent> { Seq::empty() }
    spec fn ev_remove(&self, id: Index) -> Seq<ComponentEvent> { Seq::empty() }
    spec fn ev_get_mut(&self, id: Index) -> Seq<ComponentEvent> { Seq::empty() }
'''
    u.groups[g] = dict(header=H, pre=pre, private=False)
    u.fn(ST, ['impl<T> Default for %s<T>' % name, 'fn default'], ret='r', props='C04', key=name + '::default',
         impl_header='impl<T> %s<T>' % name,
         rules=[('N12', r'Self\(Default::default\(\)\)', 'Self(%s::default())' % ('HashMap' if name == 'HashMapStorage' else 'BTreeMap'))],
         ensures=[E('wf', 'r.us_wf()'), E('empty', 'forall|i: Index| !r.has(i)')])
    for (m, labels) in METHODS:
        u.fn(ST, [H, 'fn ' + m], props='C04', group=g, key='%s::%s' % (name, m),
             rules=N8 + [('N20', r'self\.0\[&id\]', 'self.0.index(&id)')], hint_obligations=TRAIT(m, labels))
    u.fn(ST, [H, 'fn drop'], props='C04', group=g, key='%s::drop' % name, optional=True, rules=N8 + DROPRULES,
         hint_obligations=TRAIT('drop', [('gone', 'C04'), ('wf', 'C04'), ('frame', 'C04'), ('events', 'C12')]), review_if_present=REVIEW)
    u.fn(ST, ['impl<T> SharedGetMutStorage<T> for %s<T>' % name, 'fn shared_get_mut'], ret='r', props='C04 C06 C13', key=name + '::shared_get_mut',
         impl_header='impl<T> %s<T>' % name, mut_self=True,
         rules=[('N3', r'self\.0\[&id\]\.get\(\)', 'self.0.get_mut(&id).unwrap().get_mut()')],
         requires=SGM_REQ, ensures=SGM_ENS)


SLICE_RULES = [('N10', r'SyncUnsafeCell::as_cell_of_slice\((.*?)\)\.get\(\)', r'cells_as_slice(\1)'), ('N8', r'Self::Element', 'T')]


def add_dense_slice(u, extra=''):
    u.groups['impl_dense_slice'] = dict(header='impl<T> SliceAccess<T> for DenseVecStorage<T>', private=False,
                                        pre='    type Element = T;\n    // the dense slice: the stored values in dense order (a permutation of the map\'s values, by dense_wf)\n    spec fn slice_view(&self) -> Seq<T> { self.data@.map_values(|c: SyncUnsafeCell<T>| c.cv()) }\n')
    u.fn(ST, ['impl<T> SliceAccess<T> for DenseVecStorage<T>', 'fn as_slice'], props=('C04 ' + extra).strip(), group='impl_dense_slice', key='DenseVecStorage::as_slice',
         rules=SLICE_RULES, hint_obligations=[E('trait.as_slice.view', 'inherited postcondition of SliceAccess::as_slice', ('C04 ' + extra).strip())],
         bind={'p': r'let (\w+) = cells_as_slice\('},
         hints=[('after', 'cells_as_slice(', 'proof { assert($p@ =~= self.data@.map_values(|c: SyncUnsafeCell<T>| c.cv())); }')])


def add_dense_shared(u):
    u.fn(ST, ['impl<T> SharedGetMutStorage<T> for DenseVecStorage<T>', 'fn shared_get_mut'], ret='r', props='C04 C06 C13', key='DenseVecStorage::shared_get_mut',
         impl_header='impl<T> DenseVecStorage<T>', mut_self=True,
         rules=[('N3', r'unsafe \{ self\.data\.get_unchecked\(did as usize\) \}\.get\(\)', 'unsafe { vec_get_unchecked_mut(&mut self.data, did as usize) }.get_mut()')] + N19,
         requires=SGM_REQ, ensures=SGM_ENS)


DENSE = {
    'clean': dict(hints=[('before', 'self.data.clear()', 'proof { assert(/*@L:hint.tables_first*/ self.data_id@.len() == 0 && self.entity_id@.len() == 0 /*@E*/); }', 'soft')]),
    'insert': dict(hints=[('start', None, 'proof { lemma_tab_room(dense_tab(old(self)), id); }'),
                          ('after', 'self.data.push(', 'proof { lemma_tab_insert(dense_tab(old(self)), dense_tab(self), id as Index); }')]),
    'remove': dict(hints=[('before_tail', None, 'proof { let ghost o = dense_tab(old(self)); }')]),
}


def build():
    u = Unit('kinds', prelude=['prelude/hibitset.rs', ('prelude/std_unsafe.rs', 'private'), ('prelude/std_maps.rs', 'private')], spec=['kinds/spec.rs'], files=[ST])
    u.struct('src/world/entity.rs', ['type Index'])
    u.struct('src/storage/track.rs', ['enum ComponentEvent'], derive='Clone, Copy, PartialEq, Eq, Structural')
    _common.add_trait(u)
    add_dense(u)
    add_dense_slice(u)
    add_dense_shared(u)
    add_map_kind(u, 'HashMapStorage')
    add_map_kind(u, 'BTreeStorage')
    return u
