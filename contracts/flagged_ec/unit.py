# Unit `flagged_ec`: the flagged unit with cargo feature `storage-event-control` compiled in (emission switch is a field)
import importlib.util, os
_here = os.path.dirname(os.path.abspath(__file__))
_s = importlib.util.spec_from_file_location('unit_flagged_base', os.path.join(_here, '..', 'flagged', 'unit.py'))
_m = importlib.util.module_from_spec(_s)
_s.loader.exec_module(_m)


def build():
    return _m.build(features={'parallel', 'storage-event-control'}, name='flagged_ec')
