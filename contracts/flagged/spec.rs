// Change-tracking wrappers (src/storage/flagged.rs, deref_flagged.rs): vocabulary.
pub trait Component: Sized {
    type Storage: UnprotectedStorage<Self>;
}
pub open spec fn one_if(b: bool, e: ComponentEvent) -> Seq<ComponentEvent> {
    if b { seq![e] } else { Seq::empty() }
}

impl<C, T> FlaggedStorage<C, T> {
    pub open spec fn emits(&self) -> bool { /*@IF storage-event-control*/ self.event_emission /*@ELSE*/ true /*@END*/ }
}

impl<C, T> DerefFlaggedStorage<C, T> {
    pub open spec fn emits(&self) -> bool { /*@IF storage-event-control*/ self.event_emission /*@ELSE*/ true /*@END*/ }
}

// ASSUMED contract on the wrapped kind's `TryDefault::unwrap_default()` (for the built-in kinds this is `Default::default()`,
// proved empty and well-formed for DenseVecStorage / HashMapStorage / BTreeStorage in unit `kinds`)
pub trait TryDefaultStorage<C>: UnprotectedStorage<C> {
    fn unwrap_default() -> (r: Self)
        ensures r.us_wf(), forall|i: Index| !r.has(i);
}
