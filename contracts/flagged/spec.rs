// Change-tracking wrappers (src/storage/flagged.rs, deref_flagged.rs): vocabulary.
pub trait Component: Sized {
    type Storage: UnprotectedStorage<Self>;
}
pub open spec fn one_if(b: bool, e: ComponentEvent) -> Seq<ComponentEvent> {
    if b { seq![e] } else { Seq::empty() }
}

impl<C, T> FlaggedStorage<C, T> {
    pub open spec fn emits(&self) -> bool { /*@IF storage-event-control*/ self.event_emission /*@ELSE*/ true /*@END*/ }
}

impl<C, T> DerefFlaggedStorage<C, T> {
    pub open spec fn emits(&self) -> bool { /*@IF storage-event-control*/ self.event_emission /*@ELSE*/ true /*@END*/ }
}
