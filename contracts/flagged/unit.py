# Unit `flagged`: FlaggedStorage / DerefFlaggedStorage against the trait-level storage contract (C12, C04 wrappers)
import importlib.util, os
from vx.unit import Unit, E

_here = os.path.dirname(os.path.abspath(__file__))
_cs = importlib.util.spec_from_file_location('storage_common', os.path.join(_here, '..', 'storage', 'common.py'))
_common = importlib.util.module_from_spec(_cs)
_cs.loader.exec_module(_common)

FL = 'src/storage/flagged.rs'
DF = 'src/storage/deref_flagged.rs'


def build(features=None, name='flagged'):
    ec = features is not None and 'storage-event-control' in features
    u = Unit(name, prelude=['prelude/hibitset.rs', ('prelude/shrev.rs', 'private')], spec=['flagged/spec.rs'],
             files=[FL, DF], features=features)
    u.struct('src/world/entity.rs', ['type Index'])
    u.struct('src/storage/track.rs', ['enum ComponentEvent'], derive='Clone, Copy, PartialEq, Eq, Structural')
    _common.add_trait(u)
    # ---------------- FlaggedStorage (immediate variant): a real `impl UnprotectedStorage` checked against the trait contract
    u.struct(FL, ['struct FlaggedStorage'], rules=[('N10', r'T = DenseVecStorage<C>', 'T')])
    EM = 'self.event_emission' if ec else 'true'
    u.fn(FL, ['impl<C, T> FlaggedStorage<C, T>', 'fn emit_event'], ret='r', props='C12', key='FlaggedStorage::emit_event',
         ensures=[E('val', 'r == self.emits()')])
    FH = 'impl<C: Component, T: UnprotectedStorage<C>> UnprotectedStorage<C> for FlaggedStorage<C, T>'
    u.groups['impl_flagged'] = dict(header=FH, pre='flagged/impl_flagged.rs', private=False)
    TRAIT = lambda m, labels: [E('trait.%s.%s' % (m, l), 'inherited postcondition of UnprotectedStorage::%s (%s)' % (m, l), p) for (l, p) in labels]
    for (m, labels) in [('clean', [('empty', 'C04'), ('wf', 'C04'), ('events', 'C12')]),
                        ('get', [('val', 'C04')]),
                        ('get_mut', [('val', 'C04'), ('wf', 'C04'), ('frame', 'C04'), ('events', 'C12')]),
                        ('insert', [('wf', 'C04'), ('val', 'C04'), ('frame', 'C04'), ('events', 'C12')]),
                        ('remove', [('val', 'C04'), ('wf', 'C04'), ('frame', 'C04'), ('events', 'C12')])]:
        u.fn(FL, [FH, 'fn ' + m], props='C12 C04', group='impl_flagged', key='FlaggedStorage::' + m,
             rules=[('N8', r"<T as UnprotectedStorage<C>>::AccessMut<'_>", '&mut C')],
             hint_obligations=TRAIT(m, labels))
    # the shared-access variant used by non-lending and parallel joins, under the N3 sequentialisation: `&self` -> `&mut self`, the
    # channel cell's `get()` + `&mut *ptr` -> `get_mut()`, the inner storage's shared_get_mut -> its get_mut (same contract)
    u.fn(FL, ['impl<C: Component, T: SharedGetMutStorage<C>> SharedGetMutStorage<C> for FlaggedStorage<C, T>', 'fn shared_get_mut'], ret='r',
         props='C12 C13', impl_header='impl<C: Component, T: UnprotectedStorage<C>> FlaggedStorage<C, T>', key='FlaggedStorage::shared_get_mut', mut_self=True,
         rules=[('N8', r"<T as UnprotectedStorage<C>>::AccessMut<'_>", '&mut C'),
                ('N3', r'self\.channel\.get\(\)', 'self.channel.get_mut()'), ('N3', r'unsafe \{ &mut \*channel_ptr \}', 'channel_ptr'),
                ('N3', r'self\.storage\.shared_get_mut\(id\)', 'self.storage.get_mut(id)')],
         requires=[E('has', 'old(self).has(id)')],
         ensures=[E('val', '*r == old(self).val(id) && final(self).val(id) == *final(r)', 'C04'),
                  E('events', 'final(self).log() == old(self).log() + old(self).ev_get_mut(id) && final(self).emits() == old(self).emits()', 'C12 C13'),
                  E('frame', '(forall|j: Index| #![trigger final(self).has(j)] final(self).has(j) == old(self).has(j)) && (forall|j: Index| #![trigger final(self).val(j)] j != id ==> final(self).val(j) == old(self).val(j))', 'C04')])
    # constructors: empty, nothing written, emission on
    u.fn(FL, ['impl<C, T> Default for FlaggedStorage<C, T>', 'fn default'], ret='r', props='C12 C04', key='FlaggedStorage::default',
         impl_header='impl<C: Component, T: TryDefaultStorage<C>> FlaggedStorage<C, T>',
         ensures=[E('emits', 'r.emits()', 'C12'), E('log', 'r.log() == Seq::<ComponentEvent>::empty()', 'C12'),
                  E('empty', 'r.us_wf() && forall|i: Index| !r.has(i)', 'C04')])
    u.fn(DF, ['impl<C, T> Default for DerefFlaggedStorage<C, T>', 'fn default'], ret='r', props='C12 C04', key='DerefFlaggedStorage::default',
         impl_header='impl<C: Component, T: TryDefaultStorage<C>> DerefFlaggedStorage<C, T>',
         ensures=[E('emits', 'r.emits()', 'C12'), E('log', 'r.channel@ == Seq::<ComponentEvent>::empty()', 'C12'),
                  E('empty', 'r.storage.us_wf() && forall|i: Index| !r.storage.has(i)', 'C04')])
    # the Tracked impls: access to the channel and the emission switch
    for (file, ty) in ((FL, 'FlaggedStorage'), (DF, 'DerefFlaggedStorage')):
        TH = 'impl<C, T> Tracked for %s<C, T>' % ty
        TI = 'impl<C, T> %s<C, T>' % ty
        u.fn(file, [TH, 'fn channel'], ret='r', props='C12', impl_header=TI, key=ty + '::channel',
             ensures=[E('same', '*r == self.channel.inner()' if ty == 'FlaggedStorage' else '*r == self.channel')])
        u.fn(file, [TH, 'fn channel_mut'], ret='r', props='C12', impl_header=TI, key=ty + '::channel_mut',
             ensures=[E('same', ('*r == old(self).channel.inner() && final(self).channel.inner() == *final(r)' if ty == 'FlaggedStorage' else '*r == old(self).channel && final(self).channel == *final(r)') + ' && final(self).storage == old(self).storage && final(self).emits() == old(self).emits()')])
        if ec:
            u.fn(file, [TH, 'fn set_event_emission'], props='C12', impl_header=TI, key=ty + '::set_event_emission',
                 ensures=[E('switch', 'final(self).emits() == emit && final(self).channel == old(self).channel && final(self).storage == old(self).storage')])
            u.fn(file, [TH, 'fn event_emission'], ret='r', props='C12', impl_header=TI, key=ty + '::event_emission',
                 ensures=[E('val', 'r == self.emits()')])
    # an override of the trait's default `drop` (absent on the pinned tree) would have to meet the trait's drop contract
    u.fn(FL, [FH, 'fn drop'], props='C12 C04 C05', group='impl_flagged', key='FlaggedStorage::drop', optional=True,
         hint_obligations=TRAIT('drop', [('gone', 'C04'), ('wf', 'C04'), ('frame', 'C04'), ('events', 'C12')]))
    # ---------------- DerefFlaggedStorage (deferred variant): its mutable access is the FlaggedAccessMut wrapper, so it cannot
    # implement the N8-simplified trait; its methods are emitted as inherent methods (N12) with the same clauses written out
    u.struct(DF, ['struct DerefFlaggedStorage'], rules=[('N10', r'T = DenseVecStorage<C>', 'T')])
    u.struct(DF, ['struct FlaggedAccessMut'], rules=[('N8', r"<'a, A, C>", "<'a, C>"), ('N8', r'access: A,', "access: &'a mut C,")])
    u.fn(DF, ['impl<C, T> DerefFlaggedStorage<C, T>', 'fn emit_event'], ret='r', props='C12', key='DerefFlaggedStorage::emit_event',
         ensures=[E('val', 'r == self.emits()')])
    DH = 'impl<C: Component, T: UnprotectedStorage<C>> UnprotectedStorage<C> for DerefFlaggedStorage<C, T>'
    DI = 'impl<C: Component, T: UnprotectedStorage<C>> DerefFlaggedStorage<C, T>'
    SAME_EMIT = 'final(self).emits() == old(self).emits()'
    u.fn(DF, [DH, 'fn clean'], props='C12 C04', impl_header=DI, key='DerefFlaggedStorage::clean',
         requires=[E('mask', 'forall|i: Index| has_.bview().contains(i) <==> old(self).storage.has(i)')],
         ensures=[E('empty', 'forall|i: Index| !final(self).storage.has(i)', 'C04'), E('wf', 'old(self).storage.us_wf() ==> final(self).storage.us_wf()', 'C04'), E('events', 'final(self).channel@ == old(self).channel@ && ' + SAME_EMIT, 'C12')])
    u.fn(DF, [DH, 'fn get'], ret='r', props='C12 C04', impl_header=DI, key='DerefFlaggedStorage::get',
         requires=[E('has', 'self.storage.has(id)')],
         ensures=[E('val', '*r == self.storage.val(id)', 'C04')])
    u.fn(DF, [DH, 'fn get_mut'], ret='r', props='C12 C04', impl_header=DI, key='DerefFlaggedStorage::get_mut',
         rules=[('N8', r"Self::AccessMut<'_>", "FlaggedAccessMut<'_, C>")],
         requires=[E('has', 'old(self).storage.has(id)')],
         ensures=[E('no_event_yet', '*r.channel == old(self).channel && final(self).channel == *final(r.channel)', 'C12'),
                  E('wrapper', 'r.emit == old(self).emits() && r.id == id', 'C12'),
                  E('val', '*r.access == old(self).storage.val(id) && final(self).storage.val(id) == *final(r.access)', 'C04'),
                  E('frame', '(forall|j: Index| #![trigger final(self).storage.has(j)] final(self).storage.has(j) == old(self).storage.has(j)) && (forall|j: Index| #![trigger final(self).storage.val(j)] j != id ==> final(self).storage.val(j) == old(self).storage.val(j))', 'C04'),
                  E('wf', 'old(self).storage.us_wf() ==> final(self).storage.us_wf()', 'C04'),
                  E('emit_same', SAME_EMIT, 'C12')])
    for (m, ev, post) in [('insert', 'Inserted', [E('val', 'final(self).storage.has(id) && final(self).storage.val(id) == comp', 'C04')]),
                          ('remove', 'Removed', [E('val', 'r == old(self).storage.val(id) && !final(self).storage.has(id)', 'C04')])]:
        u.fn(DF, [DH, 'fn ' + m], ret=('r' if m == 'remove' else None), props='C12 C04', impl_header=DI, key='DerefFlaggedStorage::' + m,
             requires=[E('pre', ('!' if m == 'insert' else '') + 'old(self).storage.has(id)')] + ([E('wf', 'old(self).storage.us_wf()')] if m == 'insert' else []),
             ensures=post + [E('wf', 'final(self).storage.us_wf()' if m == 'insert' else 'old(self).storage.us_wf() ==> final(self).storage.us_wf()', 'C04'), E('frame', '(forall|j: Index| #![trigger final(self).storage.has(j)] j != id ==> final(self).storage.has(j) == old(self).storage.has(j)) && (forall|j: Index| #![trigger final(self).storage.val(j)] j != id ==> final(self).storage.val(j) == old(self).storage.val(j))', 'C04'),
                             E('events', 'final(self).channel@ == old(self).channel@ + one_if(old(self).emits(), ComponentEvent::%s(id)) && %s' % (ev, SAME_EMIT), 'C12')])
    u.fn(DF, [DH, 'fn drop'], props='C12 C04 C05', impl_header=DI, key='DerefFlaggedStorage::drop', optional=True,
         requires=[E('pre', 'old(self).storage.has(id)')],
         ensures=[E('gone', '!final(self).storage.has(id)', 'C04'), E('wf', 'old(self).storage.us_wf() ==> final(self).storage.us_wf()', 'C04'),
                  E('frame', '(forall|j: Index| #![trigger final(self).storage.has(j)] j != id ==> final(self).storage.has(j) == old(self).storage.has(j)) && (forall|j: Index| #![trigger final(self).storage.val(j)] j != id ==> final(self).storage.val(j) == old(self).storage.val(j))', 'C04'),
                  E('events', 'final(self).channel@ == old(self).channel@ + one_if(old(self).emits(), ComponentEvent::Removed(id)) && ' + SAME_EMIT, 'C12')])
    # the deferred Modified event: exactly one per mutable dereference of the returned access, none for a shared one
    AH = "impl<'a, C> FlaggedAccessMut<'a, C>"
    u.fn(DF, ["impl<'a, A, C> Deref for FlaggedAccessMut<'a, A, C>", 'fn deref'], ret='r', props='C12', impl_header=AH, key='FlaggedAccessMut::deref',
         rules=[('N8', r'Self::Target', 'C'), ('N8', r'self\.access\.deref\(\)', '&*self.access')],
         ensures=[E('val', '*r == *old(self.access)'), ])
    u.fn(DF, ["impl<'a, A, C> DerefMut for FlaggedAccessMut<'a, A, C>", 'fn deref_mut'], ret='r', props='C12', impl_header=AH, key='FlaggedAccessMut::deref_mut',
         rules=[('N8', r'Self::Target', 'C'), ('N8', r'self\.access\.access_mut\(\)', '&mut *self.access')],
         ensures=[E('events', 'final(self).channel@ == old(self).channel@ + one_if(old(self).emit, ComponentEvent::Modified(old(self).id))'),
                  E('val', '*r == *old(self).access && *final(self).access == *final(r)'),
                  E('same', 'final(self).emit == old(self).emit && final(self).id == old(self).id')])
    return u
