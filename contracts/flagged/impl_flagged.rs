    // abstract content and effects of the wrapper, in terms of its real fields
    spec fn has(&self, id: Index) -> bool { self.storage.has(id) }
    spec fn val(&self, id: Index) -> C { self.storage.val(id) }
    spec fn us_wf(&self) -> bool { self.storage.us_wf() }
    spec fn log(&self) -> Seq<ComponentEvent> { self.channel.inner()@ }
    spec fn ev_insert(&self, id: Index) -> Seq<ComponentEvent> { one_if(self.emits(), ComponentEvent::Inserted(id)) }
    spec fn ev_remove(&self, id: Index) -> Seq<ComponentEvent> { one_if(self.emits(), ComponentEvent::Removed(id)) }
    spec fn ev_get_mut(&self, id: Index) -> Seq<ComponentEvent> { one_if(self.emits(), ComponentEvent::Modified(id)) }
