// Trait-level contract of `MarkerAllocator<M>` (src/saveload/marker.rs): the allocator is a table id -> entity.
// (The `Resource` supertrait and `maintain` are dropped: N1.)

    // the id -> entity table
    spec fn table(&self) -> Map<M::Identifier, Entity>;

    fn allocate(&mut self, entity: Entity, id: Option<M::Identifier>) -> (r: M)
        ensures
            id is Some ==> r.mid() == id->0,
            // a counted id is one the table did not know
            id is None ==> !old(self).table().dom().contains(r.mid()),
            final(self).table() == old(self).table().insert(r.mid(), entity);

    fn retrieve_entity_internal(&self, id: M::Identifier) -> (r: Option<Entity>)
        ensures r == (if self.table().dom().contains(id) { Some(self.table()[id]) } else { None });

