// C15 (world-level part): marking an entity. `MarkerAllocator::mark` is a provided trait method; it is verified once, generically,
// against the trait-level allocator contract and the storage contracts.
pub trait Marker: Component + Sized {
    type Identifier;
    spec fn mid(&self) -> Self::Identifier;
    fn id(&self) -> (r: Self::Identifier) ensures r == self.mid();
}
