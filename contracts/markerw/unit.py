# Unit `markerw`: MarkerAllocator::mark (the provided method that gives an entity its marker) over the storage contracts (C15)
import importlib.util, os
from vx.unit import Unit, E

_here = os.path.dirname(os.path.abspath(__file__))
_s = importlib.util.spec_from_file_location('unit_storage_base', os.path.join(_here, '..', 'storage', 'unit.py'))
_storage = importlib.util.module_from_spec(_s)
_s.loader.exec_module(_storage)

MK = 'src/saveload/marker.rs'


def build():
    u = _storage.build()
    u.name = 'markerw'
    u.spec = u.spec + ['markerw/spec.rs']
    u.files = u.files + [MK]
    u.groups['trait_marker_alloc'] = dict(header='trait MarkerAllocator<M: Marker>: Sized', pre='markerw/trait_alloc.rs')
    # N4f: `entry.or_insert_with(|| { new = true; self.allocate(entity, None) })` is unfolded into the body of
    # StorageEntry::or_insert_with (src/storage/entry.rs, itself under contract in unit storage): the closure captures `&mut self`
    # and `&mut new`, which Verus does not accept
    N4F = [('N4f', r'entry\.or_insert_with\(\|\| \{\s*new = true;\s*self\.allocate\(entity, None\)\s*\}\)',
            'match entry { StorageEntry::Occupied(occupied) => occupied.into_mut(), StorageEntry::Vacant(vacant) => { new = true; vacant.insert(self.allocate(entity, None)) } }'),
           ('N8', r"storage: &'m mut WriteStorage<M>", "storage: &'m mut Storage<'e, M, &'d mut MaskedStorage<M>>"), ('N8', r"fn mark<'m>\(", "fn mark<'m, 'e, 'd>(")]
    S0 = 'old(storage)'
    u.fn(MK, ['trait MarkerAllocator<M: Marker>: Resource', 'fn mark'], ret='r', props='C15', group='trait_marker_alloc', key='MarkerAllocator::mark(default)', rules=N4F,
         requires=[E('wf', 'old(storage).data.wf()'), E('ents', 'ent_ok(old(storage).entities)')],
         ensures=[E('dead', '!live(%s.entities, entity) ==> r is None && final(self).table() == old(self).table() && final(storage).data@ == %s.data@' % (S0, S0)),
                  E('marked', 'live(%s.entities, entity) ==> r is Some && final(storage).data@.dom().contains(entity.0) && *r.unwrap().0 == final(storage).data@[entity.0]' % S0),
                  E('keeps', 'live(%s.entities, entity) && %s.data@.dom().contains(entity.0) ==> r.unwrap().1 == false && final(self).table() == old(self).table() && final(storage).data@.dom() == %s.data@.dom() && final(storage).data@[entity.0].mid() == %s.data@[entity.0].mid()' % (S0, S0, S0, S0)),
                  E('fresh', 'live(%s.entities, entity) && !%s.data@.dom().contains(entity.0) ==> r.unwrap().1 == true && !old(self).table().dom().contains(r.unwrap().0.mid()) && final(self).table() == old(self).table().insert(r.unwrap().0.mid(), entity) && final(storage).data@ == %s.data@.insert(entity.0, *r.unwrap().0)' % (S0, S0, S0)),
                  E('wf', 'final(storage).data.wf()')])
    return u
