# Unit `alloc`: src/world/entity.rs — generational entity allocator (C01, C02, C17, C20)
from vx.unit import Unit, E

F = 'src/world/entity.rs'
DER = 'Clone, Copy, PartialEq, Eq, Structural, Debug'

N5 = ('N5', r'\.map\(Generation\)', '.map(|x__: NonZeroI32| -> (r__: Generation) ensures r__.0 == x__, { Generation(x__) })')
GEN_ONE_CLOSURE = ('N9', r'unwrap_or_else\(Generation::one\)', 'unwrap_or_else(|| -> (r__: Generation) ensures r__.0@ == 1, { Generation::one() })')


def build():
    u = Unit('alloc',
             prelude=['prelude/std_nonzero.rs', 'prelude/std_atomic.rs', 'prelude/hibitset.rs', 'prelude/std_iter.rs'],
             spec=['alloc/spec.rs', 'alloc/spec_merge.rs', 'alloc/spec_trace.rs'],
             files=[F])
    u.struct(F, ['type Index'])
    u.struct(F, ['struct Generation'], derive=DER)
    u.struct(F, ['struct ZeroableGeneration'], derive=DER)
    u.struct(F, ['struct Entity'], derive=DER)
    u.struct(F, ['struct EntityCache'])
    u.struct(F, ['struct Allocator'])
    u.struct(F, ['struct EntitiesRes'])
    u.struct('src/error.rs', ['struct WrongGeneration'], derive='Debug')

    P = 'C01 C02'
    # ---- Generation
    u.fn(F, ['impl Generation', 'fn one'], ret='r', props=P, ensures=[E('val', 'r.0@ == 1')])
    u.fn(F, ['impl Generation', 'fn id'], ret='r', props=P, ensures=[E('val', 'r == self.0@'), E('nonzero', 'r != 0')])
    u.fn(F, ['impl Generation', 'fn is_alive'], ret='r', props=P, ensures=[E('val', 'r == (self.0@ > 0)')])
    u.fn(F, ['impl Generation', 'fn raised'], ret='r', props=P,
         requires=[E('dead', 'self.0@ < 0'), E('headroom', 'self.0@ > i32::MIN + 1')],
         ensures=[E('val', 'r.0@ == 1 - self.0@')])
    # ---- ZeroableGeneration
    u.fn(F, ['impl ZeroableGeneration', 'fn id'], ret='r', props=P, ensures=[E('val', 'r == zid(self)')],
         closures={'map:|gen|': dict(params='gen: Generation', ret='r__: i32', ensures=[('id', 'r__ == gen.0@')])})
    u.fn(F, ['impl ZeroableGeneration', 'fn is_alive'], ret='r', props=P, ensures=[E('val', 'r == (zid(self) > 0)')])
    u.fn(F, ['impl ZeroableGeneration', 'fn die'], props=P, rules=[N5],
         requires=[E('alive', 'zid(*old(self)) > 0')],
         ensures=[E('negated', 'zid(*final(self)) == -zid(*old(self))'), E('some', 'final(self).0 is Some')])
    u.fn(F, ['impl ZeroableGeneration', 'fn raised'], ret='r', props=P,
         requires=[E('dead', 'zid(self) <= 0'), E('headroom', 'zid(self) > i32::MIN + 1')],
         ensures=[E('val', 'r.0@ == 1 - zid(self)')])
    u.fn(F, ['impl ZeroableGeneration', 'fn raise'], ret='r', props=P,
         requires=[E('dead', 'zid(*old(self)) <= 0'), E('headroom', 'zid(*old(self)) > i32::MIN + 1')],
         ensures=[E('ret', 'r.0@ == 1 - zid(*old(self))'), E('stored', 'zid(*final(self)) == 1 - zid(*old(self))'), E('some', 'final(self).0 is Some')])
    # ---- atomics (sequentialised, N3)
    u.fn(F, ['fn atomic_increment'], ret='r', props='C01 C17 C20', mut_params=['i'],
         attr='#[verifier::exec_allows_no_decreases_clause]',
         ensures=[E('max', 'old(i)@ == usize::MAX ==> r.is_none() && final(i)@ == old(i)@'),
                  E('inc', 'old(i)@ != usize::MAX ==> r == Some(old(i)@) && final(i)@ == old(i)@ + 1')],
         loops={0: dict(invariant=[E('prev', 'prev == i@'), E('unchanged', 'i@ == old(i)@')])})
    u.fn(F, ['fn atomic_decrement'], ret='r', props='C01 C17 C20', mut_params=['i'],
         attr='#[verifier::exec_allows_no_decreases_clause]',
         ensures=[E('zero', 'old(i)@ == 0 ==> r.is_none() && final(i)@ == 0'),
                  E('dec', 'old(i)@ != 0 ==> r == Some(old(i)@) && final(i)@ == old(i)@ - 1')],
         loops={0: dict(invariant=[E('prev', 'prev == i@'), E('unchanged', 'i@ == old(i)@')])})
    # ---- EntityCache (free list)
    POP = [E('wf', 'final(self).wf()'),
           E('empty', 'old(self)@.len() == 0 ==> r.is_none() && final(self)@ == old(self)@'),
           E('last', 'old(self)@.len() > 0 ==> r == Some(old(self)@.last()) && final(self)@ == old(self)@.drop_last()')]
    u.fn(F, ['impl EntityCache', 'fn pop_atomic'], ret='r', props='C01 C17 C20', mut_self=True, mut_fields=['len'],
         requires=[E('wf', 'old(self).wf()')], ensures=POP,
         closures={'map:|x|': dict(params='x: usize', ret='r__: Index', requires=[('inrange', '0 < x <= self.cache@.len()')], ensures=[('slot', 'r__ == self.cache@[x - 1]')])})
    u.fn(F, ['impl EntityCache', 'fn pop'], ret='r', props='C01 C17 C20',
         requires=[E('wf', 'old(self).wf()')], ensures=POP)
    u.fn(F, ['impl EntityCache', 'fn maintain'], props='C01 C17 C20',
         requires=[E('wf', 'old(self).wf()')],
         ensures=[E('wf', 'final(self).wf()'), E('view', 'final(self)@ == old(self)@'), E('truncated', 'final(self).cache@.len() == final(self).len@')])
    u.fn(F, ['impl Extend<Index> for EntityCache', 'fn extend'], props='C01 C17 C20',
         impl_header='impl EntityCache',
         requires=[E('wf', 'old(self).wf()')],
         ensures=[E('wf', 'final(self).wf()'), E('appended', 'final(self)@ == old(self)@ + iter_seq(iter)')])
    # ---- Entity
    u.fn(F, ['impl Entity', 'fn id'], ret='r', props=P, ensures=[E('val', 'r == self.0')])
    u.fn(F, ['impl Entity', 'fn gen'], ret='r', props=P, ensures=[E('val', 'r == self.1')])
    # ---- Allocator
    u.fn(F, ['impl Allocator', 'fn update_generation_length'], props=P,
         requires=[E('nooverflow', 'i < usize::MAX')],
         ensures=[E('len', 'final(self).generations@.len() > i'),
                  E('grow', 'final(self).generations@.len() >= old(self).generations@.len()'),
                  E('gid', 'forall|k: int| final(self).gid(k) == old(self).gid(k)'),
                  E('frame', 'final(self).alive == old(self).alive && final(self).raised == old(self).raised && final(self).killed == old(self).killed && final(self).cache == old(self).cache && final(self).max_id == old(self).max_id'),
                  E('extend', 'gens_extend_except(old(self), final(self), -1)')])
    u.fn(F, ['impl Allocator', 'fn is_alive'], ret='r', props='C02 C03', rules=[GEN_ONE_CLOSURE],
         requires=[E('wf', 'self.wf()'), E('headroom', 'self.headroom_n(2)')],
         ensures=[E('alive_spec', 'r == self.alive_spec(e)')])
    RAISE_CLOSURE = dict(params='gen: Generation', ret='r__: Generation',
                         requires=[('range', 'gen.0@ != 0 && gen.0@ > i32::MIN + 1')],
                         ensures=[('val', 'r__.0@ == (if gen.0@ > 0 { gen.0@ as int } else { 1 - gen.0@ })')])
    u.fn(F, ['impl Allocator', 'fn generation'], ret='r', props='C01 C02',
         ensures=[E('val', 'r == (if (id as int) < self.generations@.len() { self.generations@[id as int].0 } else { None })')],
         closures={'and_then:|gen|': dict(params='gen: ZeroableGeneration', ret='r__: Option<Generation>', ensures=[('field', 'r__ == gen.0')])})
    u.fn(F, ['impl Allocator', 'fn entity'], ret='r', props='C02', rules=[GEN_ONE_CLOSURE],
         requires=[E('wf', 'self.wf()'), E('headroom', 'self.headroom_n(2)')],
         ensures=[E('id', 'r.0 == id'), E('gen', 'r.1.0@ == self.cur_gen(id)')])
    u.fn(F, ['impl Allocator', 'fn del_err'], ret='r', props='C02', rules=[GEN_ONE_CLOSURE],
         requires=[E('inrange', '(e.0 as int) < self.generations@.len()')],
         ensures=[E('entity', 'r.entity == e')])
    u.fn(F, ['impl Allocator', 'fn kill_atomic'], ret='r', props='C02', mut_self=True,
         requires=[E('wf', 'old(self).wf()'), E('headroom', 'old(self).headroom_n(2)'), E('legit', 'old(self).abs().legit(e)')],
         ensures=[E('wf', 'final(self).wf()', 'C01 C02'),
                  E('result', 'r.is_ok() == old(self).abs().current(e)'),
                  E('err_entity', 'r.is_err() ==> r.unwrap_err().entity == e'),
                  E('state', 'final(self).abs() == (if old(self).abs().current(e) { old(self).abs().defer_kill(e) } else { old(self).abs() })'),
                  E('gid', 'forall|k: int| final(self).gid(k) == old(self).gid(k)', 'C02 C17'),
                  E('complete', 'old(self).wf_complete() ==> final(self).wf_complete()', 'C17')],
         hints=[('start', None, 'proof { lemma_alive_spec_is_current(&*self, e); lemma_legit_in_range(&*self, e); }'),
                ('before_tail', None, 'proof { lemma_abs_defer_kill(old(self), &*self, e); lemma_kill_atomic(old(self), &*self, e); }')])
    CREATE_ENS = lambda step: [
        E('wf', 'final(self).wf()', 'C01 C02'),
        E('handle', 'hid(r) == old(self).abs().created()', 'C01 C20'),
        E('state', 'final(self).abs() == old(self).abs().%s()' % step, 'C01 C02 C17 C20'),
        E('complete', 'old(self).wf_complete() ==> final(self).wf_complete()', 'C17'),
        E('headroom', 'final(self).headroom_n(2)', 'C01'),
    ]
    u.fn(F, ['impl Allocator', 'fn allocate_atomic'], ret='r', props='C01 C02 C17 C20', mut_self=True, mut_fields=['max_id'],
         rules=[GEN_ONE_CLOSURE],
         requires=[E('wf', 'old(self).wf()'), E('headroom', 'old(self).headroom()')],
         ensures=CREATE_ENS('create_deferred'),
         closures={'map:|gen|': RAISE_CLOSURE},
         hints=[('before_tail', None, 'proof { lemma_alloc(old(self), &*self, id, false); }')])
    u.fn(F, ['impl Allocator', 'fn allocate'], ret='r', props='C01 C02 C17 C20',
         requires=[E('wf', 'old(self).wf()'), E('headroom', 'old(self).headroom()')],
         ensures=CREATE_ENS('create_now'),
         hints=[('before_tail', None, 'proof { lemma_alloc(old(self), &*self, id as u32, true); }')])
    u.fn(F, ['impl Allocator', 'fn kill'], ret='r', props='C01 C02',
         requires=[E('wf', 'old(self).wf()'), E('headroom', 'old(self).headroom()'), E('legit', 'all_legit(old(self), delete@)')],
         ensures=[E('wf', 'final(self).wf()', 'C01 C02'),
                  E('result', 'old(self).abs().kill_stops_at(delete@, kill_pos(r, delete@)) && (r.is_err() ==> kill_pos(r, delete@) < delete@.len() && r.unwrap_err().0.entity == delete@[kill_pos(r, delete@) as int])', 'C02 C05 C20'),
                  E('core', 'final(self).abs().core_eq(old(self).abs().kill_fold(delete@, kill_pos(r, delete@)))', 'C01 C02 C05 C20'),
                  E('free', 'final(self).abs().free == old(self).abs().killed_free(delete@, kill_pos(r, delete@))', 'C17 C20'),
                  E('complete', 'old(self).wf_complete() ==> final(self).wf_complete()', 'C17')],
         closures={'|e| e.0': dict(params='e: &Entity', ret='r__: Index', ensures=[('id', 'r__ == e.0')])},
         loops={0: dict(over='delete', invariant=[E('inv', 'kill_loop_inv(old(self), &*self, delete@, index as nat)'),
                                   E('complete', 'kill_loop_complete(old(self), &*self, delete@, index as nat)', 'C17'),
                                   E('pre', 'old(self).wf() && old(self).headroom() && all_legit(old(self), delete@)'),
                                   E('mid', 'mid == *self')],
                        start='let ghost p = *self;',
                        end='proof { lemma_kill_iter(old(self), &p, &*self, delete@, index as nat); mid = *self; }')},
         hint_obligations=[E('free_prefix', 'the free list after a stopped batch is the old one plus the ids of the killed prefix', 'C17 C20'),
                           E('free_all', 'the free list after a completed batch is the old one plus the ids of the whole batch', 'C17 C20')],
         hints=[('start', None, 'broadcast use axiom_iter_seq_map_slice; let ghost mut mid: Allocator = *self; proof { lemma_kill_init(old(self), delete@); }'),
                ('block_start', 'if !self.is_alive(', 'broadcast use axiom_iter_seq_map_slice; proof { lemma_kill_stop(old(self), &*self, delete@, index as nat); }'),
                ('before', 'return Err', 'proof { if self.cache@.len() == p.cache@.len() + index { assert(/*@L:hint.free_prefix*/ self.cache@ =~= p.cache@ + ids(delete@.subrange(0, index as int)) /*@E*/); } lemma_kill_done(old(self), &p, &*self, delete@, index as nat); }'),
                ('after', 'if !self.is_alive(', 'proof { lemma_kill_cur(old(self), &p, delete@, index as nat); assert(p.abs().occ(delete@[index as int].0)); assert(p.alive@.contains(delete@[index as int].0) <==> p.gid(delete@[index as int].0 as int) > 0); assert(p.raised@.contains(delete@[index as int].0) ==> p.gid(delete@[index as int].0 as int) <= 0); }'),
                ('before_tail', None, 'proof { assert(delete@.subrange(0, delete@.len() as int) =~= delete@); if self.cache@.len() == mid.cache@.len() + delete@.len() { assert(/*@L:hint.free_all*/ self.cache@ =~= mid.cache@ + ids(delete@) /*@E*/); } lemma_kill_done(old(self), &mid, &*self, delete@, delete@.len()); }')])
    # ---- EntitiesRes (shared resource): thin wrappers, each must pass its callee's contract through unchanged
    ER_REQ = [E('wf', 'old(self).alloc.wf()'), E('headroom', 'old(self).alloc.headroom()')]
    u.fn(F, ['impl EntitiesRes', 'fn create'], ret='r', props='C01 C02 C17 C20', mut_self=True,
         requires=ER_REQ,
         ensures=[E('wf', 'final(self).alloc.wf()', 'C01 C02'),
                  E('handle', 'hid(r) == old(self).alloc.abs().created()', 'C01 C20'),
                  E('state', 'final(self).alloc.abs() == old(self).alloc.abs().create_deferred()', 'C01 C02 C17 C20'),
                  E('complete', 'old(self).alloc.wf_complete() ==> final(self).alloc.wf_complete()', 'C17'),
                  E('headroom', 'final(self).alloc.headroom_n(2)', 'C01')])
    u.fn(F, ['impl EntitiesRes', 'fn delete'], ret='r', props='C02', mut_self=True,
         requires=[E('wf', 'old(self).alloc.wf()'), E('headroom', 'old(self).alloc.headroom_n(2)'), E('legit', 'old(self).alloc.abs().legit(e)')],
         ensures=[E('wf', 'final(self).alloc.wf()', 'C01 C02'),
                  E('result', 'r.is_ok() == old(self).alloc.abs().current(e)'),
                  E('err_entity', 'r.is_err() ==> r.unwrap_err().entity == e'),
                  E('state', 'final(self).alloc.abs() == (if old(self).alloc.abs().current(e) { old(self).alloc.abs().defer_kill(e) } else { old(self).alloc.abs() })'),
                  E('complete', 'old(self).alloc.wf_complete() ==> final(self).alloc.wf_complete()', 'C17')])
    u.fn(F, ['impl EntitiesRes', 'fn entity'], ret='r', props='C02',
         requires=[E('wf', 'self.alloc.wf()'), E('headroom', 'self.alloc.headroom_n(2)')],
         ensures=[E('id', 'r.0 == id'), E('gen', 'r.1.0@ == self.alloc.cur_gen(id)')])
    u.fn(F, ['impl EntitiesRes', 'fn is_alive'], ret='r', props='C02 C03',
         requires=[E('wf', 'self.alloc.wf()'), E('headroom', 'self.alloc.headroom_n(2)')],
         ensures=[E('alive_spec', 'r == self.alloc.alive_spec(e)')])
    # ---- creation iterator and builder of the shared resource (N3: the borrowed resource is held as &mut)
    u.struct(F, ['struct CreateIterAtomic'], rules=[('N3', r"&'a Allocator", "&'a mut Allocator")])
    u.struct(F, ['struct EntityResBuilder'], rules=[('N3', r"&'a EntitiesRes", "&'a mut EntitiesRes")])
    u.fn(F, ["impl<'a> Iterator for CreateIterAtomic<'a>", 'fn next'], ret='r', props='C01 C02 C17 C20',
         impl_header="impl<'a> CreateIterAtomic<'a>", key='CreateIterAtomic::next',
         requires=[E('wf', 'old(self).0.wf()'), E('headroom', 'old(self).0.headroom()')],
         ensures=[E('some', 'r is Some'),
                  E('wf', 'final(self).0.wf()', 'C01 C02'),
                  E('handle', 'hid(r.unwrap()) == old(self).0.abs().created()', 'C01 C20'),
                  E('state', 'final(self).0.abs() == old(self).0.abs().create_deferred()', 'C01 C02 C17 C20'),
                  E('complete', 'old(self).0.wf_complete() ==> final(self).0.wf_complete()', 'C17')])
    u.fn(F, ['impl EntitiesRes', 'fn create_iter'], ret='r', props='C01', mut_self=True, key='EntitiesRes::create_iter',
         rules=[('N3', r'CreateIterAtomic\(&self\.alloc\)', 'CreateIterAtomic(&mut self.alloc)'), ('N1', r'-> CreateIterAtomic', "-> CreateIterAtomic<'_>")],
         ensures=[E('same_alloc', '*r.0 == old(self).alloc && final(self).alloc == *final(r.0)')])
    u.fn(F, ['impl EntitiesRes', 'fn build_entity'], ret='r', props='C01 C02', mut_self=True, key='EntitiesRes::build_entity',
         rules=[('N1', r'-> EntityResBuilder', "-> EntityResBuilder<'_>")],
         requires=ER_REQ,
         ensures=[E('handle', 'hid(r.entity) == old(self).alloc.abs().created() && !r.built', 'C01 C20'),
                  E('state', 'r.entities.alloc.abs() == old(self).alloc.abs().create_deferred() && r.entities.alloc.wf() && *final(self) == *final(r.entities)', 'C01 C02 C17'),
                  E('owns', 'r.entities.alloc.abs().current(r.entity)', 'C02')])
    # EntityResBuilder::build(mut self) is outside Verus's subset (`mut self` receiver): not under contract
    u.fn(F, ["impl<'a> Drop for EntityResBuilder<'a>", 'fn drop'], props='C02 C05',
         impl_header="impl<'a> EntityResBuilder<'a>", key='EntityResBuilder::drop',
         requires=[E('wf', 'old(self).entities.alloc.wf()'), E('headroom', 'old(self).entities.alloc.headroom_n(2)'),
                   E('own', '!old(self).built ==> old(self).entities.alloc.abs().current(old(self).entity)')],
         ensures=[E('wf', 'final(self).entities.alloc.wf()', 'C01 C02'),
                  E('state', 'final(self).entities.alloc.abs() == (if old(self).built { old(self).entities.alloc.abs() } else { old(self).entities.alloc.abs().defer_kill(old(self).entity) })')])
    # ---- entities join members (N12: trait-impl methods emitted as free functions, Self::* substituted)
    JT = [('N12', r'Self::Mask', "BitSetOr<&'a BitSet, &'a AtomicBitSet>"), ('N12', r'Self::Value', "&'a EntitiesRes"),
          ('N12', r'\(self\)', "(self_: &'a EntitiesRes)"), ('N12', r'\bself\b', 'self_')]
    GET_REQ = lambda v: [E('wf', '%s.alloc.wf()' % v), E('headroom', '%s.alloc.headroom_n(2)' % v), E('inmask', '%s.alloc.occ(id)' % v)]
    GET_ENS = lambda v: [E('id', 'r.0 == id'), E('gen', 'r.1.0@ == %s.alloc.cur_gen(id)' % v, 'C02 C06')]
    for (hdr, nm, gen) in [("impl<'a> Join for &'a EntitiesRes", 'join', "<'a>"),
                           ("impl<'a> LendJoin for &'a EntitiesRes", 'lend_join', "<'a>"),
                           ("impl<'a> ParJoin for &'a EntitiesRes", 'par_join', "<'a>")]:
        u.fn(F, [hdr, 'fn open'], ret='r', props='C02 C06', free='entities_%s_open' % nm, key='EntitiesRes_%s::open' % nm,
             rules=JT + [('N12', r'fn open\(', "fn open<'a>(")],
             ensures=[E('mask', 'r.0@ == self_.alloc.alive@ + self_.alloc.raised@'), E('value', 'r.1 == self_')])
        u.fn(F, [hdr, 'fn get'], ret='r', props='C02 C06', free='entities_%s_get' % nm, key='EntitiesRes_%s::get' % nm,
             rules=[GEN_ONE_CLOSURE, ('N12', r"fn get(<'next>)?\(", "fn get<'a, 'next>(")],
             requires=GET_REQ('v' if nm == 'par_join' else 'old(v)'), ensures=GET_ENS('v' if nm == 'par_join' else 'old(v)'), closures={'map:|gen|': RAISE_CLOSURE},
             hints=[('start', None, 'proof { lemma_gid_facts(&v.alloc, id); }')])
    u.fn(F, ['impl Allocator', 'fn merge'], ret='r', props='C01 C02',
         requires=[E('wf', 'old(self).wf()'), E('headroom', 'old(self).headroom()')],
         ensures=[E('wf', 'final(self).wf()', 'C01 C02'),
                  E('core', 'final(self).abs().core_eq(old(self).abs().merged())', 'C01 C02 C05 C20'),
                  E('out', 'r@.map_values(|e: Entity| hid(e)) =~= old(self).abs().merged_out()', 'C02 C05 C20'),
                  E('out_current', 'forall|j: int| 0 <= j < r@.len() ==> old(self).abs().current(#[trigger] r@[j])', 'C02 C05'),
                  E('free', 'final(self).abs().free == old(self).abs().merged().free', 'C17 C20'),
                  E('complete', 'old(self).wf_complete() ==> final(self).wf_complete()', 'C17'),
                  E('headroom', 'final(self).headroom_n(2)', 'C01')],
         closures={'|e| e.0': dict(params='e: &Entity', ret='r__: Index', ensures=[('id', 'r__ == e.0')])},
         loops={0: dict(iter_name='it', over='self.raised',
                        invariant=[E('inv', 'merge_inv1(old(self), &*self, it.index@ as nat)'),
                                   E('seq', 'it.seq() == sorted_seq(old(self).raised@)'),
                                   E('pre', 'old(self).wf() && old(self).headroom() && deleted@.len() == 0'),
                                   E('mid', 'mid == *self')],
                        start='let ghost p = *self; proof { lemma_merge_pre1(old(self), &p, it.index@ as nat); }',
                        end='proof { lemma_merge_iter1(old(self), &p, &*self, it.index@ as nat); mid = *self; }'),
                1: dict(iter_name='it', over='self.killed',
                        invariant=[E('inv', 'merge_inv2(old(self), &*self, it.index@ as nat, deleted@)'),
                                   E('seq', 'it.seq() == sorted_seq(old(self).killed@)'),
                                   E('pre', 'old(self).wf() && old(self).headroom()'),
                                   E('mid', 'mid == *self')],
                        start='let ghost p = *self; let ghost dp = deleted@; proof { lemma_merge_pre2(old(self), &p, it.index@ as nat, dp); }',
                        end='proof { lemma_merge_iter2(old(self), &p, &*self, it.index@ as nat, dp, deleted@); mid = *self; }')},
         hint_obligations=[E('free_all', 'the free list after merge is the old one plus the ids of the returned handles', 'C17 C20')],
         hints=[('start', None, 'broadcast use axiom_iter_seq_map_slice; let ghost mut mid: Allocator = *self;'),
                ('before_loop', 0, 'proof { lemma_merge_init(old(self), &*self); mid = *self; }'),
                ('before_loop', 1, 'proof { lemma_merge_mid(old(self), &mid, &*self); mid = *self; }'),
                ('before_tail', None, 'proof { if self.cache@.len() == mid.cache@.len() + deleted@.len() { assert(/*@L:hint.free_all*/ self.cache@ =~= mid.cache@ + ids(deleted@) /*@E*/); } lemma_merge_done(old(self), &mid, &*self, deleted@); }')])
    return u
