// ---------------------------------------------------------------- Allocator::merge
// generation stored for i once pending raises are applied
pub open spec fn base_gid(o: &Allocator, i: u32) -> int {
    if o.raised@.contains(i) { 1 - o.gid(i as int) } else { o.gid(i as int) }
}
pub open spec fn in_seq_prefix(s: Seq<u32>, n: nat, i: u32) -> bool {
    exists|k: int| 0 <= k < n && k < s.len() && #[trigger] s[k] == i
}
pub proof fn lemma_in_seq_prefix_step(s: Seq<u32>, n: nat, i: u32)
    requires 0 < n <= s.len(),
    ensures in_seq_prefix(s, n, i) == (in_seq_prefix(s, (n - 1) as nat, i) || s[n - 1] == i),
{
    if in_seq_prefix(s, n, i) {
        let k = choose|k: int| 0 <= k < n && k < s.len() && #[trigger] s[k] == i;
        if k < n - 1 { assert(in_seq_prefix(s, (n - 1) as nat, i)); }
    }
    if in_seq_prefix(s, (n - 1) as nat, i) {
        let k = choose|k: int| 0 <= k < n - 1 && k < s.len() && #[trigger] s[k] == i;
        assert(s[k] == i);
    }
    if s[n - 1] == i { assert(in_seq_prefix(s, n, i)); }
}
pub proof fn lemma_sorted_not_in_prefix(s: Set<u32>, k: nat)
    requires k < sorted_seq(s).len(),
    ensures !in_seq_prefix(sorted_seq(s), k, sorted_seq(s)[k as int]), s.contains(sorted_seq(s)[k as int]),
{
    broadcast use axiom_sorted_seq;
    let rs = sorted_seq(s);
    let x = rs[k as int];
    assert(rs.contains(x));
    if in_seq_prefix(rs, k, x) {
        let j = choose|j: int| 0 <= j < k && j < rs.len() && #[trigger] rs[j] == x;
        assert(rs[j] < rs[k as int]);
    }
}
pub proof fn lemma_sorted_full_prefix(s: Set<u32>, i: u32)
    ensures in_seq_prefix(sorted_seq(s), sorted_seq(s).len(), i) == s.contains(i),
{
    broadcast use axiom_sorted_seq;
    let rs = sorted_seq(s);
    if s.contains(i) {
        assert(rs.contains(i));
        let k = choose|k: int| 0 <= k < rs.len() && rs[k] == i;
        assert(rs[k] == i);
    }
    if in_seq_prefix(rs, rs.len(), i) {
        let k = choose|k: int| 0 <= k < rs.len() && k < rs.len() && #[trigger] rs[k] == i;
        assert(rs.contains(i));
    }
}

pub open spec fn gens_nonzero(s: &Allocator) -> bool {
    forall|k: int| 0 <= k < s.generations@.len() ==> ((#[trigger] s.generations@[k]).0 is Some ==> zid(s.generations@[k]) != 0)
}
pub open spec fn gens_same_except(p: &Allocator, n: &Allocator, x: int) -> bool {
    &&& n.generations@.len() == p.generations@.len()
    &&& forall|j: int| 0 <= j < n.generations@.len() && j != x ==> #[trigger] n.generations@[j] == p.generations@[j]
}

// first loop of merge: the first n raised indices (ascending) have been made alive
pub open spec fn merge_inv1(o: &Allocator, s: &Allocator, n: nat) -> bool {
    let rs = sorted_seq(o.raised@);
    &&& n <= rs.len()
    &&& s.raised == o.raised && s.killed == o.killed && s.cache == o.cache && s.max_id@ == o.max_id@
    &&& s.generations@.len() > o.max_id@
    &&& gens_nonzero(s)
    &&& forall|i: u32| #![trigger s.gid(i as int)] #![trigger s.alive@.contains(i)] in_seq_prefix(rs, n, i) ==> s.alive@.contains(i) && s.gid(i as int) == 1 - o.gid(i as int)
    &&& forall|i: u32| #![trigger s.gid(i as int)] #![trigger s.alive@.contains(i)] !in_seq_prefix(rs, n, i) ==> s.alive@.contains(i) == o.alive@.contains(i) && s.gid(i as int) == o.gid(i as int)
}

pub proof fn lemma_merge_init(o: &Allocator, s: &Allocator)
    requires
        o.wf(),
        s.alive == o.alive && s.raised == o.raised && s.killed == o.killed && s.cache == o.cache && s.max_id@ == o.max_id@,
        s.generations@.len() > o.max_id@,
        gens_extend_except(o, s, -1),
    ensures merge_inv1(o, s, 0),
{
    lemma_gid_frame(o, s, -1);
    let rs = sorted_seq(o.raised@);
    assert forall|i: u32| !in_seq_prefix(rs, 0, i) by {}
    assert forall|k: int| 0 <= k < s.generations@.len() implies ((#[trigger] s.generations@[k]).0 is Some ==> zid(s.generations@[k]) != 0) by {
        if k < o.generations@.len() { assert(s.generations@[k] == o.generations@[k]); }
    }
    assert forall|i: u32| #![trigger s.gid(i as int)] #![trigger s.alive@.contains(i)] !in_seq_prefix(rs, 0, i) implies s.alive@.contains(i) == o.alive@.contains(i) && s.gid(i as int) == o.gid(i as int) by {
        assert(s.gid(i as int) == o.gid(i as int));
    }
}

// facts the first loop body needs before raising index x = rs[k]
pub proof fn lemma_merge_pre1(o: &Allocator, p: &Allocator, k: nat)
    requires o.wf(), o.headroom(), merge_inv1(o, p, k), k < sorted_seq(o.raised@).len(),
    ensures ({
        let x = sorted_seq(o.raised@)[k as int];
        &&& (x as int) < p.generations@.len()
        &&& zid(p.generations@[x as int]) == p.gid(x as int)
        &&& p.gid(x as int) == o.gid(x as int)
        &&& p.gid(x as int) <= 0
        &&& p.gid(x as int) > i32::MIN + 1
    }),
{
    let x = sorted_seq(o.raised@)[k as int];
    lemma_sorted_not_in_prefix(o.raised@, k);
    assert(o.gid(x as int) <= 0 && (x as int) < o.max_id@);
    assert(p.gid(x as int) == o.gid(x as int));
    assert(-(i32::MAX - 3) < o.gid(x as int));
}

pub proof fn lemma_merge_iter1(o: &Allocator, p: &Allocator, n: &Allocator, k: nat)
    requires
        o.wf(), o.headroom(), merge_inv1(o, p, k), k < sorted_seq(o.raised@).len(),
        n.raised == p.raised && n.killed == p.killed && n.cache == p.cache && n.max_id@ == p.max_id@,
        n.alive@ == p.alive@.insert(sorted_seq(o.raised@)[k as int]),
        gens_same_except(p, n, sorted_seq(o.raised@)[k as int] as int),
        (sorted_seq(o.raised@)[k as int] as int) < n.generations@.len(),
        n.generations@[sorted_seq(o.raised@)[k as int] as int].0 is Some,
        zid(n.generations@[sorted_seq(o.raised@)[k as int] as int]) == 1 - p.gid(sorted_seq(o.raised@)[k as int] as int),
    ensures merge_inv1(o, n, k + 1),
{
    let rs = sorted_seq(o.raised@);
    let x = rs[k as int];
    lemma_merge_pre1(o, p, k);
    lemma_sorted_not_in_prefix(o.raised@, k);
    assert forall|j: int| j != x as int implies #[trigger] n.gid(j) == p.gid(j) by {
        if 0 <= j < n.generations@.len() { assert(n.generations@[j] == p.generations@[j]); }
    }
    assert forall|j: int| 0 <= j < n.generations@.len() implies ((#[trigger] n.generations@[j]).0 is Some ==> zid(n.generations@[j]) != 0) by {
        if j != x as int { assert(n.generations@[j] == p.generations@[j]); }
    }
    assert forall|i: u32| #![trigger n.gid(i as int)] #![trigger n.alive@.contains(i)] in_seq_prefix(rs, k + 1, i) implies n.alive@.contains(i) && n.gid(i as int) == 1 - o.gid(i as int) by {
        lemma_in_seq_prefix_step(rs, k + 1, i);
        if i != x { assert(in_seq_prefix(rs, k, i)); assert(p.gid(i as int) == 1 - o.gid(i as int)); assert(p.alive@.contains(i)); assert(n.gid(i as int) == p.gid(i as int)); }
        assert(n.alive@.contains(i));
    }
    assert forall|i: u32| #![trigger n.gid(i as int)] #![trigger n.alive@.contains(i)] !in_seq_prefix(rs, k + 1, i) implies n.alive@.contains(i) == o.alive@.contains(i) && n.gid(i as int) == o.gid(i as int) by {
        lemma_in_seq_prefix_step(rs, k + 1, i);
        assert(i != x && !in_seq_prefix(rs, k, i));
        assert(p.gid(i as int) == o.gid(i as int));
        assert(p.alive@.contains(i) == o.alive@.contains(i));
        assert(n.alive@.contains(i) == p.alive@.contains(i));
        assert(n.gid(i as int) == p.gid(i as int));
    }
}

// second loop of merge: raised is empty, the first n killed indices (ascending) have been retired
pub open spec fn merge_inv2(o: &Allocator, s: &Allocator, n: nat, deleted: Seq<Entity>) -> bool {
    let ks = sorted_seq(o.killed@);
    &&& n <= ks.len()
    &&& s.raised@ == Set::<u32>::empty() && s.killed == o.killed && s.cache == o.cache && s.max_id@ == o.max_id@
    &&& s.generations@.len() > o.max_id@
    &&& gens_nonzero(s)
    &&& forall|i: u32| #![trigger s.gid(i as int)] #![trigger s.alive@.contains(i)] in_seq_prefix(ks, n, i) ==> !s.alive@.contains(i) && s.gid(i as int) == -base_gid(o, i)
    &&& forall|i: u32| #![trigger s.gid(i as int)] #![trigger s.alive@.contains(i)] !in_seq_prefix(ks, n, i) ==> s.alive@.contains(i) == o.occ(i) && s.gid(i as int) == base_gid(o, i)
    &&& deleted.len() == n
    &&& forall|j: int| 0 <= j < n ==> hid(#[trigger] deleted[j]) == (ks[j], base_gid(o, ks[j]))
}

// between the loops: raised has been cleared
pub proof fn lemma_merge_mid(o: &Allocator, p: &Allocator, n: &Allocator)
    requires
        o.wf(), merge_inv1(o, p, sorted_seq(o.raised@).len()),
        n.raised@ == Set::<u32>::empty(),
        n.generations == p.generations && n.alive == p.alive && n.killed == p.killed && n.cache == p.cache && n.max_id@ == p.max_id@,
    ensures merge_inv2(o, n, 0, Seq::<Entity>::empty()),
{
    let ks = sorted_seq(o.killed@);
    let rs = sorted_seq(o.raised@);
    assert forall|k: int| n.gid(k) == p.gid(k) by {}
    assert forall|i: u32| #![trigger n.gid(i as int)] #![trigger n.alive@.contains(i)] !in_seq_prefix(ks, 0, i) implies n.alive@.contains(i) == o.occ(i) && n.gid(i as int) == base_gid(o, i) by {
        lemma_sorted_full_prefix(o.raised@, i);
        assert(p.gid(i as int) == n.gid(i as int));
        if o.raised@.contains(i) {
            assert(in_seq_prefix(rs, rs.len(), i));
            assert(p.alive@.contains(i));
        } else {
            assert(!in_seq_prefix(rs, rs.len(), i));
            assert(p.alive@.contains(i) == o.alive@.contains(i));
        }
        assert(n.alive@.contains(i) == p.alive@.contains(i));
    }
    assert forall|i: u32| !in_seq_prefix(ks, 0, i) by {}
}

pub proof fn lemma_merge_pre2(o: &Allocator, p: &Allocator, k: nat, dp: Seq<Entity>)
    requires o.wf(), o.headroom(), merge_inv2(o, p, k, dp), k < sorted_seq(o.killed@).len(),
    ensures ({
        let x = sorted_seq(o.killed@)[k as int];
        &&& (x as int) < p.generations@.len()
        &&& zid(p.generations@[x as int]) == p.gid(x as int)
        &&& p.gid(x as int) == base_gid(o, x)
        &&& p.gid(x as int) > 0
        &&& p.generations@[x as int].0 is Some
        &&& o.occ(x)
    }),
{
    let x = sorted_seq(o.killed@)[k as int];
    lemma_sorted_not_in_prefix(o.killed@, k);
    assert(o.occ(x));
    assert(o.alive@.contains(x) <==> o.gid(x as int) > 0);
    if o.raised@.contains(x) { assert(o.gid(x as int) <= 0 && (x as int) < o.max_id@); }
    if o.alive@.contains(x) { if (x as int) >= o.max_id@ { assert(o.gid(x as int) == 0); } }
    assert(p.gid(x as int) == base_gid(o, x));
}

pub proof fn lemma_merge_iter2(o: &Allocator, p: &Allocator, n: &Allocator, k: nat, dp: Seq<Entity>, dn: Seq<Entity>)
    requires
        o.wf(), o.headroom(), merge_inv2(o, p, k, dp), k < sorted_seq(o.killed@).len(),
        n.raised == p.raised && n.killed == p.killed && n.cache == p.cache && n.max_id@ == p.max_id@,
        n.alive@ == p.alive@.remove(sorted_seq(o.killed@)[k as int]),
        gens_same_except(p, n, sorted_seq(o.killed@)[k as int] as int),
        (sorted_seq(o.killed@)[k as int] as int) < n.generations@.len(),
        n.generations@[sorted_seq(o.killed@)[k as int] as int].0 is Some,
        zid(n.generations@[sorted_seq(o.killed@)[k as int] as int]) == -p.gid(sorted_seq(o.killed@)[k as int] as int),
        dn.len() == dp.len() + 1,
        forall|j: int| 0 <= j < dp.len() ==> dn[j] == dp[j],
        hid(dn[dp.len() as int]) == (sorted_seq(o.killed@)[k as int], p.gid(sorted_seq(o.killed@)[k as int] as int)),
    ensures merge_inv2(o, n, k + 1, dn),
{
    let ks = sorted_seq(o.killed@);
    let x = ks[k as int];
    lemma_merge_pre2(o, p, k, dp);
    lemma_sorted_not_in_prefix(o.killed@, k);
    assert forall|j: int| j != x as int implies #[trigger] n.gid(j) == p.gid(j) by {
        if 0 <= j < n.generations@.len() { assert(n.generations@[j] == p.generations@[j]); }
    }
    assert forall|j: int| 0 <= j < n.generations@.len() implies ((#[trigger] n.generations@[j]).0 is Some ==> zid(n.generations@[j]) != 0) by {
        if j != x as int { assert(n.generations@[j] == p.generations@[j]); }
    }
    assert forall|i: u32| #![trigger n.gid(i as int)] #![trigger n.alive@.contains(i)] in_seq_prefix(ks, k + 1, i) implies !n.alive@.contains(i) && n.gid(i as int) == -base_gid(o, i) by {
        lemma_in_seq_prefix_step(ks, k + 1, i);
        if i != x { assert(in_seq_prefix(ks, k, i)); assert(p.gid(i as int) == -base_gid(o, i)); assert(!p.alive@.contains(i)); assert(n.gid(i as int) == p.gid(i as int)); }
        assert(!n.alive@.contains(i));
    }
    assert forall|i: u32| #![trigger n.gid(i as int)] #![trigger n.alive@.contains(i)] !in_seq_prefix(ks, k + 1, i) implies n.alive@.contains(i) == o.occ(i) && n.gid(i as int) == base_gid(o, i) by {
        lemma_in_seq_prefix_step(ks, k + 1, i);
        assert(i != x && !in_seq_prefix(ks, k, i));
        assert(p.gid(i as int) == base_gid(o, i));
        assert(p.alive@.contains(i) == o.occ(i));
        assert(n.alive@.contains(i) == p.alive@.contains(i));
        assert(n.gid(i as int) == p.gid(i as int));
    }
    assert forall|j: int| 0 <= j < k + 1 implies hid(#[trigger] dn[j]) == (ks[j], base_gid(o, ks[j])) by {
        if j < k { assert(dn[j] == dp[j]); }
    }
}

// where every index ended up after both loops (n = state after the loops, before/after the free-list extension)
pub open spec fn merge_final(o: &Allocator, n: &Allocator) -> bool {
    &&& forall|i: u32| #![trigger n.gid(i as int)] #![trigger n.alive@.contains(i)]
            (o.killed@.contains(i) ==> !n.alive@.contains(i) && n.gid(i as int) == -base_gid(o, i))
            && (!o.killed@.contains(i) ==> n.alive@.contains(i) == o.occ(i) && n.gid(i as int) == base_gid(o, i))
    &&& forall|i: u32| #![trigger o.occ(i)] o.occ(i) ==> base_gid(o, i) == o.hw(i) && o.hw(i) >= 1
    &&& forall|i: u32| #![trigger o.occ(i)] !o.occ(i) ==> base_gid(o, i) == o.gid(i as int) && o.gid(i as int) <= 0
    &&& n.raised@ == Set::<u32>::empty() && n.killed@ == Set::<u32>::empty() && n.max_id@ == o.max_id@
    &&& gens_nonzero(n)
}

pub proof fn lemma_merge_final(o: &Allocator, m: &Allocator, n: &Allocator, deleted: Seq<Entity>)
    requires
        o.wf(), merge_inv2(o, m, sorted_seq(o.killed@).len(), deleted),
        n.killed@ == Set::<u32>::empty(),
        n.generations == m.generations && n.alive == m.alive && n.raised == m.raised && n.max_id == m.max_id,
    ensures merge_final(o, n),
{
    assert forall|k: int| n.gid(k) == m.gid(k) by {}
    assert forall|i: u32| #![trigger n.gid(i as int)] #![trigger n.alive@.contains(i)]
            (o.killed@.contains(i) ==> !n.alive@.contains(i) && n.gid(i as int) == -base_gid(o, i))
            && (!o.killed@.contains(i) ==> n.alive@.contains(i) == o.occ(i) && n.gid(i as int) == base_gid(o, i)) by {
        lemma_sorted_full_prefix(o.killed@, i);
        assert(m.gid(i as int) == n.gid(i as int));
    }
    assert forall|i: u32| #![trigger o.occ(i)] o.occ(i) implies base_gid(o, i) == o.hw(i) && o.hw(i) >= 1 by {
        lemma_cur_gen_is_hw(o, i);
        assert(o.alive@.contains(i) <==> o.gid(i as int) > 0);
        if o.raised@.contains(i) { assert(o.gid(i as int) <= 0); }
    }
    assert forall|i: u32| #![trigger o.occ(i)] !o.occ(i) implies base_gid(o, i) == o.gid(i as int) && o.gid(i as int) <= 0 by {
        assert(o.alive@.contains(i) <==> o.gid(i as int) > 0);
    }
    assert(gens_nonzero(n)) by { assert(gens_nonzero(m)); }
}

pub proof fn lemma_merge_abs(o: &Allocator, n: &Allocator)
    requires o.wf(), merge_final(o, n),
    ensures n.abs().core_eq(o.abs().merged()),
{
    let t = o.abs().merged();
    assert forall|i: u32| n.hw(i) == o.hw(i) by {
        assert(n.gid(i as int) == n.gid(i as int));
        if o.killed@.contains(i) { assert(o.occ(i)); }
        if o.occ(i) { } else { assert(!o.occ(i)); }
    }
    assert(n.abs().hw =~= t.hw);
    assert forall|i: u32| n.abs().alive.contains(i) == t.alive.contains(i) by {
        assert(n.gid(i as int) == n.gid(i as int));
        if o.killed@.contains(i) { assert(o.occ(i)); }
    }
    assert(n.abs().alive =~= t.alive);
    assert(n.abs().raised =~= t.raised);
    assert(n.abs().killed =~= t.killed);
}

pub proof fn lemma_merge_out(o: &Allocator, deleted: Seq<Entity>)
    requires
        o.wf(), deleted.len() == sorted_seq(o.killed@).len(),
        forall|j: int| 0 <= j < deleted.len() ==> hid(#[trigger] deleted[j]) == (sorted_seq(o.killed@)[j], base_gid(o, sorted_seq(o.killed@)[j])),
    ensures
        deleted.map_values(|e: Entity| hid(e)) =~= o.abs().merged_out(),
        forall|j: int| 0 <= j < deleted.len() ==> o.abs().current(#[trigger] deleted[j]),
        ids(deleted) =~= sorted_seq(o.killed@),
{
    broadcast use axiom_sorted_seq;
    let ks = sorted_seq(o.killed@);
    assert forall|j: int| 0 <= j < deleted.len() implies hid(#[trigger] deleted[j]) == (ks[j], o.hw(ks[j])) && o.abs().current(deleted[j]) by {
        assert(ks.contains(ks[j]));
        assert(o.killed@.contains(ks[j]));
        assert(o.occ(ks[j]));
        lemma_cur_gen_is_hw(o, ks[j]);
        assert(o.alive@.contains(ks[j]) <==> o.gid(ks[j] as int) > 0);
        if o.raised@.contains(ks[j]) { assert(o.gid(ks[j] as int) <= 0); }
    }
    assert(deleted.map_values(|e: Entity| hid(e)) =~= o.abs().merged_out());
    assert forall|j: int| 0 <= j < ids(deleted).len() implies ids(deleted)[j] == ks[j] by { assert(hid(deleted[j]).0 == ks[j]); }
}

pub proof fn lemma_merge_headroom(o: &Allocator, n: &Allocator)
    requires o.wf(), o.headroom(), merge_final(o, n),
    ensures n.headroom_n(2),
{
    assert forall|i: u32| -(i32::MAX - 2) < #[trigger] n.gid(i as int) && n.gid(i as int) < i32::MAX - 2 by {
        assert(-(i32::MAX - 3) < o.gid(i as int) && o.gid(i as int) < i32::MAX - 3);
        assert(n.gid(i as int) == n.gid(i as int));
    }
}

pub proof fn lemma_merge_wf(o: &Allocator, n: &Allocator)
    requires
        o.wf(), merge_final(o, n), n.cache.wf(),
        n.cache@ == o.cache@ + sorted_seq(o.killed@),
    ensures
        n.wf(),
        o.wf_complete() ==> n.wf_complete(),
{
    broadcast use axiom_sorted_seq;
    let ks = sorted_seq(o.killed@);
    let ml = o.cache@.len() as int;
    assert forall|i: u32| #![trigger n.alive@.contains(i)] n.alive@.contains(i) <==> n.gid(i as int) > 0 by {
        assert(n.gid(i as int) == n.gid(i as int));
        if o.killed@.contains(i) { assert(o.occ(i)); }
        if o.occ(i) { } else { assert(!o.occ(i)); }
    }
    assert forall|i: u32| #![trigger n.gid(i as int)] (i as int) >= n.max_id@ implies n.gid(i as int) == 0 by {
        assert(o.gid(i as int) == 0);
        if o.raised@.contains(i) { assert((i as int) < o.max_id@); }
        if o.alive@.contains(i) { assert(o.gid(i as int) > 0); }
        assert(!o.occ(i));
        if o.killed@.contains(i) { assert(o.occ(i)); }
    }
    assert forall|k: int| 0 <= k < n.cache@.len() implies {
            let j = #[trigger] n.cache@[k];
            (j as int) < n.max_id@ && !n.occ(j) && n.gid(j as int) < 0 } by {
        if k < ml {
            let j = o.cache@[k];
            assert(n.cache@[k] == j);
            assert((j as int) < o.max_id@ && !o.occ(j) && o.gid(j as int) < 0);
            if o.killed@.contains(j) { assert(o.occ(j)); }
            assert(n.gid(j as int) == base_gid(o, j));
        } else {
            let y = k - ml;
            assert(n.cache@[k] == ks[y]);
            let j = ks[y];
            assert(ks.contains(j));
            assert(o.killed@.contains(j));
            assert(o.occ(j));
            assert(n.gid(j as int) == -base_gid(o, j));
            if o.raised@.contains(j) { assert((j as int) < o.max_id@); }
            if o.alive@.contains(j) { assert(o.gid(j as int) > 0); if (j as int) >= o.max_id@ { assert(o.gid(j as int) == 0); } }
        }
    }
    assert forall|k: int, l: int| 0 <= k < l < n.cache@.len() implies n.cache@[k] != n.cache@[l] by {
        if l < ml {
            assert(n.cache@[k] == o.cache@[k] && n.cache@[l] == o.cache@[l]);
        } else if k < ml {
            let y = l - ml;
            assert(n.cache@[l] == ks[y]);
            assert(ks.contains(ks[y]));
            assert(o.occ(ks[y]));
            assert(n.cache@[k] == o.cache@[k]);
            assert(!o.occ(o.cache@[k]));
        } else {
            let x = k - ml; let y = l - ml;
            assert(n.cache@[k] == ks[x] && n.cache@[l] == ks[y]);
        }
    }
    assert(n.wf());
    if o.wf_complete() {
        assert forall|j: u32| #![trigger n.occ(j)] (j as int) < n.max_id@ && !n.occ(j) implies n.cache@.contains(j) by {
            assert(n.gid(j as int) == n.gid(j as int));
            if o.killed@.contains(j) {
                assert(ks.contains(j));
                let x = choose|x: int| 0 <= x < ks.len() && ks[x] == j;
                assert(n.cache@[ml + x] == j);
            } else {
                assert(!o.occ(j));
                assert(o.cache@.contains(j));
                let x = choose|x: int| 0 <= x < o.cache@.len() && o.cache@[x] == j;
                assert(n.cache@[x] == j);
            }
        }
    }
}

pub proof fn lemma_merge_done(o: &Allocator, m: &Allocator, n: &Allocator, deleted: Seq<Entity>)
    requires
        o.wf(), o.headroom(), merge_inv2(o, m, sorted_seq(o.killed@).len(), deleted),
        n.killed@ == Set::<u32>::empty(),
        n.generations == m.generations && n.alive == m.alive && n.raised == m.raised && n.max_id == m.max_id,
        n.cache.wf(),
    ensures
        n.abs().core_eq(o.abs().merged()),
        deleted.map_values(|e: Entity| hid(e)) =~= o.abs().merged_out(),
        forall|j: int| 0 <= j < deleted.len() ==> o.abs().current(#[trigger] deleted[j]),
        n.headroom_n(2),
        n.cache@ == m.cache@ + ids(deleted) ==> {
            &&& n.wf()
            &&& n.abs().free == o.abs().merged().free
            &&& o.wf_complete() ==> n.wf_complete()
        },
{
    lemma_merge_final(o, m, n, deleted);
    lemma_merge_abs(o, n);
    lemma_merge_out(o, deleted);
    lemma_merge_headroom(o, n);
    if n.cache@ == m.cache@ + ids(deleted) {
        assert(m.cache == o.cache);
        assert(n.cache@ == o.cache@ + sorted_seq(o.killed@));
        lemma_merge_wf(o, n);
        assert(n.abs().free =~= o.abs().merged().free);
    }
}
