// Specification vocabulary for the entity allocator (src/world/entity.rs).
// Pure spec/proof code: no executable text. Every `*_next` function below is the
// single source used both in the `ensures` clauses attached to the real functions
// and in the trace lemmas at the end of this file.

pub open spec fn zid(z: ZeroableGeneration) -> int {
    match z.0 { Some(g) => g.0@ as int, None => 0 }
}

// identity of a handle: (index, generation number)
pub open spec fn hid(e: Entity) -> (u32, int) { (e.0, e.1.0@ as int) }

pub open spec fn ids(d: Seq<Entity>) -> Seq<u32> { d.map_values(|e: Entity| e.0) }

// ---------------------------------------------------------------- abstract state
pub struct AState {
    pub hw: spec_fn(u32) -> int,     // high-water generation per index (0 = never used); total
    pub alive: Set<u32>,       // merged, alive
    pub raised: Set<u32>,      // created through shared access, awaiting maintain
    pub killed: Set<u32>,      // deletion requested through shared access, awaiting maintain
    pub free: Seq<u32>,        // free list, last element is handed out first
    pub max_id: nat,           // number of indices ever taken from the counter
}

impl AState {
    pub open spec fn occ(self, i: u32) -> bool { self.alive.contains(i) || self.raised.contains(i) }
    pub open spec fn hwv(self, i: u32) -> int { (self.hw)(i) }
    pub open spec fn legit(self, e: Entity) -> bool { 1 <= e.1.0@ <= self.hwv(e.0) }
    pub open spec fn current(self, e: Entity) -> bool { self.occ(e.0) && e.1.0@ == self.hwv(e.0) }

    pub open spec fn next_index(self) -> u32 {
        if self.free.len() > 0 { self.free.last() } else { self.max_id as u32 }
    }
    pub open spec fn take_index(self) -> AState {
        if self.free.len() > 0 { AState { free: self.free.drop_last(), ..self } }
        else { AState { max_id: self.max_id + 1, ..self } }
    }
    // the handle every creation path returns
    pub open spec fn created(self) -> (u32, int) { (self.next_index(), self.hwv(self.next_index()) + 1) }
    pub open spec fn create_now(self) -> AState {
        let i = self.next_index();
        let s = self.take_index();
        AState { hw: |j: u32| if j == i { s.hwv(i) + 1 } else { s.hwv(j) }, alive: s.alive.insert(i), ..s }
    }
    pub open spec fn create_deferred(self) -> AState {
        let i = self.next_index();
        let s = self.take_index();
        AState { hw: |j: u32| if j == i { s.hwv(i) + 1 } else { s.hwv(j) }, raised: s.raised.insert(i), ..s }
    }
    pub open spec fn kill_one(self, e: Entity) -> AState {
        AState { alive: self.alive.remove(e.0), raised: self.raised.remove(e.0), killed: self.killed.remove(e.0), ..self }
    }
    // state after immediately killing d[0..n] (free list not yet extended)
    pub open spec fn kill_fold(self, d: Seq<Entity>, n: nat) -> AState
        decreases n
    {
        if n == 0 { self } else { self.kill_fold(d, (n - 1) as nat).kill_one(d[n - 1]) }
    }
    pub open spec fn kill_ok_upto(self, d: Seq<Entity>, n: nat) -> bool {
        forall|j: nat| j < n ==> (#[trigger] self.kill_fold(d, j)).current(d[j as int])
    }
    // batch kill stops at position k (k == d.len() means the whole batch succeeded)
    pub open spec fn kill_stops_at(self, d: Seq<Entity>, k: nat) -> bool {
        &&& k <= d.len()
        &&& self.kill_ok_upto(d, k)
        &&& k < d.len() ==> !self.kill_fold(d, k).current(d[k as int])
    }
    // core (everything but the free list) of the state after a batch kill that stopped at k
    pub open spec fn killed_core(self, d: Seq<Entity>, k: nat) -> AState { self.kill_fold(d, k) }
    pub open spec fn killed_free(self, d: Seq<Entity>, k: nat) -> Seq<u32> { self.free + ids(d.subrange(0, k as int)) }

    pub open spec fn defer_kill(self, e: Entity) -> AState { AState { killed: self.killed.insert(e.0), ..self } }

    pub open spec fn merged(self) -> AState {
        AState {
            alive: (self.alive + self.raised) - self.killed,
            raised: Set::empty(),
            killed: Set::empty(),
            free: self.free + sorted_seq(self.killed),
            ..self
        }
    }
    // handles returned by merge: the killed indices ascending, each with its current generation
    pub open spec fn merged_out(self) -> Seq<(u32, int)> {
        sorted_seq(self.killed).map_values(|i: u32| (i, self.hwv(i)))
    }

    pub open spec fn core_eq(self, o: AState) -> bool {
        &&& self.hw =~= o.hw
        &&& self.alive =~= o.alive
        &&& self.raised =~= o.raised
        &&& self.killed =~= o.killed
        &&& self.max_id == o.max_id
    }
}

// ---------------------------------------------------------------- concrete invariants
impl EntityCache {
    pub open spec fn wf(&self) -> bool { self.len@ <= self.cache@.len() }
    pub open spec fn view(&self) -> Seq<Index> { self.cache@.subrange(0, self.len@ as int) }
}

impl Allocator {
    // generation id stored for index i (0 when out of range / never used)
    pub open spec fn gid(&self, i: int) -> int {
        if 0 <= i < self.generations@.len() { zid(self.generations@[i]) } else { 0 }
    }
    pub open spec fn occ(&self, i: u32) -> bool { self.alive@.contains(i) || self.raised@.contains(i) }
    pub open spec fn hw(&self, i: u32) -> int {
        if self.alive@.contains(i) { self.gid(i as int) }
        else if self.raised@.contains(i) { 1 - self.gid(i as int) }
        else { -self.gid(i as int) }
    }
    pub open spec fn abs(&self) -> AState {
        AState {
            hw: |i: u32| self.hw(i),
            alive: self.alive@,
            raised: self.raised@,
            killed: self.killed@,
            free: self.cache@,
            max_id: self.max_id@ as nat,
        }
    }
    // safety invariant (C01, C02)
    pub open spec fn wf(&self) -> bool {
        &&& self.cache.wf()
        &&& forall|i: int| 0 <= i < self.generations@.len() ==> ((#[trigger] self.generations@[i]).0 is Some ==> zid(self.generations@[i]) != 0)
        &&& forall|i: u32| #![trigger self.alive@.contains(i)] self.alive@.contains(i) <==> self.gid(i as int) > 0
        &&& forall|i: u32| #![trigger self.raised@.contains(i)] self.raised@.contains(i) ==> self.gid(i as int) <= 0 && (i as int) < self.max_id@
        &&& forall|i: u32| #![trigger self.gid(i as int)] (i as int) >= self.max_id@ ==> self.gid(i as int) == 0
        &&& forall|i: u32| #![trigger self.killed@.contains(i)] self.killed@.contains(i) ==> self.occ(i)
        &&& forall|k: int| 0 <= k < self.cache@.len() ==> {
                let i = #[trigger] self.cache@[k];
                (i as int) < self.max_id@ && !self.occ(i) && self.gid(i as int) < 0 }
        &&& forall|k: int, l: int| 0 <= k < l < self.cache@.len() ==> self.cache@[k] != self.cache@[l]
    }
    // completeness of the free list (C17): every index below the counter that is not occupied is on it
    pub open spec fn wf_complete(&self) -> bool {
        forall|i: u32| #![trigger self.occ(i)] (i as int) < self.max_id@ && !self.occ(i) ==> self.cache@.contains(i)
    }
    // machine-arithmetic side conditions (listed as assumptions): fewer than 2^24 indices ever
    // allocated (hibitset's own hard limit), fewer than 2^31-3 reuses of one index.
    pub open spec fn headroom_n(&self, m: int) -> bool {
        &&& self.max_id@ + m <= 0x100_0003
        &&& forall|i: u32| -(i32::MAX - m) < #[trigger] self.gid(i as int) && self.gid(i as int) < i32::MAX - m
    }
    // public operations demand a margin of 3, leaf functions of 2 (one batch kill moves a generation by at most 1)
    pub open spec fn headroom(&self) -> bool { self.headroom_n(3) }
    // the generation is_alive / entity() / the entities join compare against or return for index i
    pub open spec fn cur_gen(&self, i: u32) -> int {
        let z = self.gid(i as int);
        if z <= 0 && self.raised@.contains(i) { 1 - z } else if z != 0 { z } else { 1 }
    }
    // what is_alive computes
    pub open spec fn alive_spec(&self, e: Entity) -> bool { e.1.0@ == self.cur_gen(e.0) }
}

// legit handles: is_alive is exactly "current"
//@props C02 C03
pub proof fn lemma_alive_spec_is_current(a: &Allocator, e: Entity)
    requires a.wf(), a.abs().legit(e),
    ensures a.alive_spec(e) == a.abs().current(e),
{
    let s = a.abs();
    assert(s.hwv(e.0) == a.hw(e.0));
    assert(s.occ(e.0) == a.occ(e.0));
    assert(a.alive@.contains(e.0) <==> a.gid(e.0 as int) > 0);
    if a.raised@.contains(e.0) { assert(a.gid(e.0 as int) <= 0); }
}

// a legit handle that is not current names an index whose generation slot exists
//@props C02
pub proof fn lemma_legit_in_range(a: &Allocator, e: Entity)
    requires a.wf(), a.abs().legit(e),
    ensures a.abs().current(e) || (e.0 as int) < a.generations@.len(),
{
    let s = a.abs();
    assert(s.hwv(e.0) == a.hw(e.0));
    assert(s.occ(e.0) == a.occ(e.0));
    assert(a.alive@.contains(e.0) <==> a.gid(e.0 as int) > 0);
}

pub proof fn lemma_abs_defer_kill(o: &Allocator, n: &Allocator, e: Entity)
    requires
        n.generations == o.generations, n.alive == o.alive, n.raised == o.raised, n.cache == o.cache, n.max_id == o.max_id,
        n.killed@ == o.killed@.insert(e.0) || n.killed == o.killed,
    ensures
        n.killed@ == o.killed@.insert(e.0) ==> n.abs() == o.abs().defer_kill(e),
        n.killed == o.killed ==> n.abs() == o.abs(),
{
    assert(n.abs().hw =~= o.abs().hw);
}

// ---------------------------------------------------------------- concrete transition lemmas
// (stated over the old and the new value of the real struct; called from proof hints in the real bodies)

pub open spec fn gens_extend_except(o: &Allocator, n: &Allocator, id: int) -> bool {
    &&& n.generations@.len() >= o.generations@.len()
    &&& forall|k: int| 0 <= k < n.generations@.len() && k != id ==>
            (k < o.generations@.len() ==> #[trigger] n.generations@[k] == o.generations@[k])
            && (k >= o.generations@.len() ==> n.generations@[k].0 is None)
}

pub proof fn lemma_gid_frame(o: &Allocator, n: &Allocator, id: int)
    requires gens_extend_except(o, n, id),
    ensures forall|k: int| k != id ==> #[trigger] n.gid(k) == o.gid(k),
{
    assert forall|k: int| k != id implies #[trigger] n.gid(k) == o.gid(k) by {
        if 0 <= k < n.generations@.len() {
            if k < o.generations@.len() { assert(n.generations@[k] == o.generations@[k]); }
            else { assert(n.generations@[k].0 is None); }
        }
    }
}

pub proof fn lemma_kill_atomic(o: &Allocator, n: &Allocator, e: Entity)
    requires
        o.wf(),
        n.generations == o.generations, n.alive == o.alive, n.raised == o.raised, n.cache == o.cache, n.max_id == o.max_id,
        (n.killed@ == o.killed@.insert(e.0) && o.occ(e.0)) || n.killed == o.killed,
    ensures
        n.wf(),
        o.wf_complete() ==> n.wf_complete(),
        forall|k: int| n.gid(k) == o.gid(k),
{
    assert forall|k: int| n.gid(k) == o.gid(k) by {}
    assert forall|i: u32| #![trigger n.killed@.contains(i)] n.killed@.contains(i) implies n.occ(i) by {
        if i != e.0 || n.killed == o.killed { assert(o.killed@.contains(i)); assert(o.occ(i)); }
    }
    assert forall|i: u32| #![trigger n.alive@.contains(i)] n.alive@.contains(i) <==> n.gid(i as int) > 0 by {
        assert(o.alive@.contains(i) <==> o.gid(i as int) > 0);
    }
    assert forall|i: u32| #![trigger n.raised@.contains(i)] n.raised@.contains(i) implies n.gid(i as int) <= 0 && (i as int) < n.max_id@ by {
        assert(o.raised@.contains(i));
    }
    assert forall|i: u32| #![trigger n.gid(i as int)] (i as int) >= n.max_id@ implies n.gid(i as int) == 0 by {
        assert(o.gid(i as int) == 0);
    }
    assert forall|k: int| 0 <= k < n.cache@.len() implies {
            let i = #[trigger] n.cache@[k];
            (i as int) < n.max_id@ && !n.occ(i) && n.gid(i as int) < 0 } by {
        let i = o.cache@[k];
        assert((i as int) < o.max_id@ && !o.occ(i) && o.gid(i as int) < 0);
    }
    if o.wf_complete() {
        assert forall|i: u32| #![trigger n.occ(i)] (i as int) < n.max_id@ && !n.occ(i) implies n.cache@.contains(i) by {
            assert(!o.occ(i));
        }
    }
}

// shared by allocate (now = true: index joins `alive`, stored generation raised)
// and allocate_atomic (now = false: index joins `raised`, stored generation untouched)
pub proof fn lemma_alloc(o: &Allocator, n: &Allocator, id: u32, now: bool)
    requires
        o.wf(), o.headroom(),
        n.killed == o.killed,
        n.cache.wf(),
        o.cache@.len() > 0 ==> id == o.cache@.last() && n.cache@ == o.cache@.drop_last() && n.max_id@ == o.max_id@,
        o.cache@.len() == 0 ==> id as int == o.max_id@ && n.cache@ == o.cache@ && n.max_id@ == o.max_id@ + 1,
        now ==> n.alive@ == o.alive@.insert(id) && n.raised == o.raised,
        now ==> gens_extend_except(o, n, id as int),
        now ==> (id as int) < n.generations@.len(),
        now ==> zid(n.generations@[id as int]) == 1 - o.gid(id as int) && n.generations@[id as int].0 is Some,
        !now ==> n.raised@ == o.raised@.insert(id) && n.alive == o.alive && n.generations == o.generations,
    ensures
        n.wf(),
        n.abs() == (if now { o.abs().create_now() } else { o.abs().create_deferred() }),
        o.wf_complete() ==> n.wf_complete(),
        n.headroom_n(2),
        !o.occ(id), o.gid(id as int) <= 0,
        n.cur_gen(id) == o.abs().created().1,
        id == o.abs().next_index(),
{
    let len = o.cache@.len() as int;
    if len > 0 {
        assert(o.cache@[len - 1] == id);
        assert((id as int) < o.max_id@ && !o.occ(id) && o.gid(id as int) < 0);
    } else {
        assert(o.gid(id as int) == 0);
        assert(!o.occ(id)) by {
            if o.alive@.contains(id) { assert(o.gid(id as int) > 0); }
            if o.raised@.contains(id) { assert((id as int) < o.max_id@); }
        }
    }
    assert(o.alive@.contains(id) <==> o.gid(id as int) > 0);
    if now { lemma_gid_frame(o, n, id as int); }
    assert forall|k: int| k != id as int implies #[trigger] n.gid(k) == o.gid(k) by {}
    assert(n.gid(id as int) == (if now { 1 - o.gid(id as int) } else { o.gid(id as int) }));
    // ---- wf
    assert forall|i: int| 0 <= i < n.generations@.len() implies ((#[trigger] n.generations@[i]).0 is Some ==> zid(n.generations@[i]) != 0) by {
        if now {
            if i != id as int {
                if i < o.generations@.len() { assert(n.generations@[i] == o.generations@[i]); }
            }
        }
    }
    assert forall|i: u32| #![trigger n.alive@.contains(i)] n.alive@.contains(i) <==> n.gid(i as int) > 0 by {
        assert(o.alive@.contains(i) <==> o.gid(i as int) > 0);
        if i != id { assert(n.gid(i as int) == o.gid(i as int)); }
    }
    assert forall|i: u32| #![trigger n.raised@.contains(i)] n.raised@.contains(i) implies n.gid(i as int) <= 0 && (i as int) < n.max_id@ by {
        if i != id { assert(o.raised@.contains(i)); assert(n.gid(i as int) == o.gid(i as int)); }
    }
    assert forall|i: u32| #![trigger n.gid(i as int)] (i as int) >= n.max_id@ implies n.gid(i as int) == 0 by {
        assert(i != id);
        assert(n.gid(i as int) == o.gid(i as int));
    }
    assert forall|i: u32| #![trigger n.killed@.contains(i)] n.killed@.contains(i) implies n.occ(i) by {
        assert(o.killed@.contains(i)); assert(o.occ(i));
    }
    assert forall|k: int| 0 <= k < n.cache@.len() implies {
            let i = #[trigger] n.cache@[k];
            (i as int) < n.max_id@ && !n.occ(i) && n.gid(i as int) < 0 } by {
        let i = o.cache@[k];
        assert(n.cache@[k] == i);
        assert((i as int) < o.max_id@ && !o.occ(i) && o.gid(i as int) < 0);
        if len > 0 { assert(o.cache@[k] != o.cache@[len - 1]); }
        assert(i != id);
        assert(n.gid(i as int) == o.gid(i as int));
    }
    assert forall|k: int, l: int| 0 <= k < l < n.cache@.len() implies n.cache@[k] != n.cache@[l] by {
        assert(n.cache@[k] == o.cache@[k] && n.cache@[l] == o.cache@[l]);
    }
    // ---- abstract state
    let a = if now { o.abs().create_now() } else { o.abs().create_deferred() };
    assert(o.abs().next_index() == id);
    assert forall|i: u32| n.hw(i) == #[trigger] (a.hw)(i) by {
        if i != id { assert(n.gid(i as int) == o.gid(i as int)); }
    }
    assert(n.abs().hw =~= a.hw);
    assert(n.abs().free =~= a.free);
    // ---- completeness of the free list
    if o.wf_complete() {
        assert forall|i: u32| #![trigger n.occ(i)] (i as int) < n.max_id@ && !n.occ(i) implies n.cache@.contains(i) by {
            assert(i != id);
            assert(!o.occ(i));
            assert((i as int) < o.max_id@);
            assert(o.cache@.contains(i));
            let k = choose|k: int| 0 <= k < o.cache@.len() && o.cache@[k] == i;
            assert(k != len - 1);
            assert(n.cache@[k] == i);
        }
    }
    assert forall|i: u32| -(i32::MAX - 2) < #[trigger] n.gid(i as int) && n.gid(i as int) < i32::MAX - 2 by {
        assert(-(i32::MAX - 3) < o.gid(i as int) && o.gid(i as int) < i32::MAX - 3);
        assert(-(i32::MAX - 3) < o.gid(id as int) && o.gid(id as int) < i32::MAX - 3);
        if i != id { assert(n.gid(i as int) == o.gid(i as int)); }
    }
}

// ---------------------------------------------------------------- Allocator::kill
pub open spec fn kill_pos(r: Result<(), (WrongGeneration, usize)>, d: Seq<Entity>) -> nat {
    match r { Ok(_) => d.len(), Err((_, k)) => k as nat }
}

pub open spec fn all_legit(o: &Allocator, d: Seq<Entity>) -> bool {
    forall|j: int| 0 <= j < d.len() ==> o.abs().legit(#[trigger] d[j])
}

// state of the batch-kill loop after n handles: the concrete allocator `s` mirrors kill_fold(d, n)
pub open spec fn kill_loop_inv(o: &Allocator, s: &Allocator, d: Seq<Entity>, n: nat) -> bool {
    &&& n <= d.len()
    &&& s.wf()
    &&& s.headroom_n(2)
    &&& o.abs().kill_ok_upto(d, n)
    &&& s.abs().core_eq(o.abs().kill_fold(d, n))
    &&& s.cache == o.cache
    &&& forall|i: u32| !in_prefix(d, n, i) ==> #[trigger] s.gid(i as int) == o.gid(i as int)
    &&& forall|i: u32| in_prefix(d, n, i) ==> #[trigger] s.gid(i as int) < 0
}
// C17 part: every unoccupied index below the counter is on the free list or among the handles killed so far
pub open spec fn kill_loop_complete(o: &Allocator, s: &Allocator, d: Seq<Entity>, n: nat) -> bool {
    o.wf_complete() ==> forall|i: u32| #![trigger s.occ(i)] (i as int) < s.max_id@ && !s.occ(i) && !in_prefix(d, n, i) ==> s.cache@.contains(i)
}

pub proof fn lemma_kill_init(o: &Allocator, d: Seq<Entity>)
    requires o.wf(), o.headroom(),
    ensures kill_loop_inv(o, o, d, 0), kill_loop_complete(o, o, d, 0),
{
    assert forall|i: u32| !in_prefix(d, 0, i) by {}
    assert(o.abs().kill_fold(d, 0) == o.abs());
}

pub proof fn lemma_kill_fold_hw(s: AState, d: Seq<Entity>, n: nat)
    requires n <= d.len(),
    ensures forall|i: u32| #![trigger s.kill_fold(d, n).hwv(i)] s.kill_fold(d, n).hwv(i) == s.hwv(i),
{
    lemma_kill_fold_frame(s, d, n);
}

// the current handle of the loop is alive in the concrete state iff it is current in the folded abstract state
pub proof fn lemma_kill_cur(o: &Allocator, s: &Allocator, d: Seq<Entity>, idx: nat)
    requires o.wf(), all_legit(o, d), idx < d.len(), kill_loop_inv(o, s, d, idx),
    ensures
        s.alive_spec(d[idx as int]) == o.abs().kill_fold(d, idx).current(d[idx as int]),
        s.abs().legit(d[idx as int]),
        s.abs().current(d[idx as int]) == o.abs().kill_fold(d, idx).current(d[idx as int]),
{
    let e = d[idx as int];
    let f = o.abs().kill_fold(d, idx);
    lemma_kill_fold_frame(o.abs(), d, idx);
    assert(o.abs().legit(e));
    assert(s.abs().hw =~= f.hw);
    assert(s.abs().hwv(e.0) == f.hwv(e.0));
    assert(f.hwv(e.0) == o.abs().hwv(e.0));
    lemma_alive_spec_is_current(s, e);
}

pub proof fn lemma_kill_stop(o: &Allocator, s: &Allocator, d: Seq<Entity>, idx: nat)
    requires o.wf(), all_legit(o, d), idx < d.len(), kill_loop_inv(o, s, d, idx), !s.alive_spec(d[idx as int]),
    ensures o.abs().kill_stops_at(d, idx), (d[idx as int].0 as int) < s.generations@.len(),
{
    lemma_kill_cur(o, s, d, idx);
    lemma_legit_in_range(s, d[idx as int]);
}

pub proof fn lemma_kill_iter(o: &Allocator, p: &Allocator, n: &Allocator, d: Seq<Entity>, idx: nat)
    requires
        o.wf(), o.headroom(), all_legit(o, d), idx < d.len(),
        kill_loop_inv(o, p, d, idx), kill_loop_complete(o, p, d, idx),
        p.alive_spec(d[idx as int]),
        n.alive@ == p.alive@.remove(d[idx as int].0),
        n.raised@ == p.raised@.remove(d[idx as int].0),
        n.killed@ == p.killed@.remove(d[idx as int].0),
        n.cache == p.cache, n.max_id == p.max_id,
        gens_extend_except(p, n, d[idx as int].0 as int),
        (d[idx as int].0 as int) < n.generations@.len(),
        n.generations@[d[idx as int].0 as int].0 is Some,
        zid(n.generations@[d[idx as int].0 as int]) == (if p.raised@.contains(d[idx as int].0) { p.gid(d[idx as int].0 as int) - 1 } else { -p.gid(d[idx as int].0 as int) }),
    ensures
        kill_loop_inv(o, n, d, idx + 1), kill_loop_complete(o, n, d, idx + 1),
{
    let e = d[idx as int];
    let i = e.0;
    let f = o.abs().kill_fold(d, idx);
    let f2 = o.abs().kill_fold(d, idx + 1);
    lemma_kill_cur(o, p, d, idx);
    lemma_kill_fold_frame(o.abs(), d, idx);
    lemma_kill_fold_frame(o.abs(), d, idx + 1);
    assert(f2 == f.kill_one(e));
    assert(f.current(e));
    // i is occupied in p and was not touched by the prefix
    assert(p.occ(i)) by { assert(p.abs().occ(i)); }
    assert(!in_prefix(d, idx, i)) by {
        if in_prefix(d, idx, i) { assert(!f.alive.contains(i) && !f.raised.contains(i)); }
    }
    assert(p.gid(i as int) == o.gid(i as int));
    assert(p.alive@.contains(i) <==> p.gid(i as int) > 0);
    if p.raised@.contains(i) { assert(p.gid(i as int) <= 0); }
    lemma_gid_frame(p, n, i as int);
    assert forall|k: int| k != i as int implies #[trigger] n.gid(k) == p.gid(k) by {}
    assert(n.gid(i as int) < 0);
    // ---- kill_ok_upto(idx + 1)
    assert forall|j: nat| j < idx + 1 implies (#[trigger] o.abs().kill_fold(d, j)).current(d[j as int]) by {
        if j == idx { } else { assert(o.abs().kill_fold(d, j).current(d[j as int])); }
    }
    // ---- wf(n)
    assert forall|k: int| 0 <= k < n.generations@.len() implies ((#[trigger] n.generations@[k]).0 is Some ==> zid(n.generations@[k]) != 0) by {
        if k != i as int && k < p.generations@.len() { assert(n.generations@[k] == p.generations@[k]); }
    }
    assert forall|j: u32| #![trigger n.alive@.contains(j)] n.alive@.contains(j) <==> n.gid(j as int) > 0 by {
        assert(p.alive@.contains(j) <==> p.gid(j as int) > 0);
        if j != i { assert(n.gid(j as int) == p.gid(j as int)); }
    }
    assert forall|j: u32| #![trigger n.raised@.contains(j)] n.raised@.contains(j) implies n.gid(j as int) <= 0 && (j as int) < n.max_id@ by {
        assert(p.raised@.contains(j) && j != i);
        assert(n.gid(j as int) == p.gid(j as int));
    }
    assert forall|j: u32| #![trigger n.gid(j as int)] (j as int) >= n.max_id@ implies n.gid(j as int) == 0 by {
        assert(p.gid(j as int) == 0);
        if j == i {
            if p.alive@.contains(i) { assert(p.gid(i as int) > 0); }
            assert(p.raised@.contains(i));
            assert((i as int) < p.max_id@);
        }
        assert(n.gid(j as int) == p.gid(j as int));
    }
    assert forall|j: u32| #![trigger n.killed@.contains(j)] n.killed@.contains(j) implies n.occ(j) by {
        assert(p.killed@.contains(j) && j != i);
        assert(p.occ(j));
    }
    assert forall|k: int| 0 <= k < n.cache@.len() implies {
            let j = #[trigger] n.cache@[k];
            (j as int) < n.max_id@ && !n.occ(j) && n.gid(j as int) < 0 } by {
        let j = p.cache@[k];
        assert((j as int) < p.max_id@ && !p.occ(j) && p.gid(j as int) < 0);
        assert(j != i);
        assert(n.gid(j as int) == p.gid(j as int));
    }
    assert(n.wf());
    // ---- headroom
    assert forall|k: u32| -(i32::MAX - 2) < #[trigger] n.gid(k as int) && n.gid(k as int) < i32::MAX - 2 by {
        assert(-(i32::MAX - 2) < p.gid(k as int) && p.gid(k as int) < i32::MAX - 2);
        assert(-(i32::MAX - 3) < o.gid(i as int) && o.gid(i as int) < i32::MAX - 3);
        if k != i { assert(n.gid(k as int) == p.gid(k as int)); }
    }
    // ---- abstract state
    assert forall|j: u32| n.hw(j) == p.hw(j) by {
        if j != i { assert(n.gid(j as int) == p.gid(j as int)); }
    }
    assert forall|j: u32| #[trigger] (n.abs().hw)(j) == (f2.hw)(j) by {
        assert(n.hw(j) == p.hw(j));
        assert((p.abs().hw)(j) == (f.hw)(j));
    }
    assert(n.abs().hw =~= f2.hw);
    assert(n.abs().alive =~= f2.alive);
    assert(n.abs().raised =~= f2.raised);
    assert(n.abs().killed =~= f2.killed);
    // ---- gid frame / killed ones negative
    assert forall|j: u32| !in_prefix(d, idx + 1, j) implies #[trigger] n.gid(j as int) == o.gid(j as int) by {
        lemma_in_prefix_step(d, idx + 1, j);
        assert(j != i && !in_prefix(d, idx, j));
        assert(p.gid(j as int) == o.gid(j as int));
        assert(n.gid(j as int) == p.gid(j as int));
    }
    assert forall|j: u32| in_prefix(d, idx + 1, j) implies #[trigger] n.gid(j as int) < 0 by {
        lemma_in_prefix_step(d, idx + 1, j);
        if j != i { assert(in_prefix(d, idx, j)); assert(p.gid(j as int) < 0); assert(n.gid(j as int) == p.gid(j as int)); }
    }
    // ---- completeness (C17)
    if o.wf_complete() {
        assert forall|j: u32| #![trigger n.occ(j)] (j as int) < n.max_id@ && !n.occ(j) && !in_prefix(d, idx + 1, j) implies n.cache@.contains(j) by {
            lemma_in_prefix_step(d, idx + 1, j);
            assert(j != i && !in_prefix(d, idx, j));
            assert(!p.occ(j));
        }
    }
}

pub proof fn lemma_ids_prefix(d: Seq<Entity>, n: nat, i: u32)
    requires n <= d.len(),
    ensures ids(d.subrange(0, n as int)).contains(i) == in_prefix(d, n, i),
{
    let a = ids(d.subrange(0, n as int));
    if a.contains(i) {
        let k = choose|k: int| 0 <= k < a.len() && a[k] == i;
        assert(d[k].0 == i);
    }
    if in_prefix(d, n, i) {
        let k = choose|k: int| 0 <= k < n && k < d.len() && (#[trigger] d[k]).0 == i;
        assert(a[k] == i);
    }
}

// after the loop stopped at idx (idx == d.len(): ran to the end): if the free list was extended by the ids
// of d[0..idx], the result is well formed, pins the free list, and keeps it complete
pub proof fn lemma_kill_done(o: &Allocator, m: &Allocator, n: &Allocator, d: Seq<Entity>, idx: nat)
    requires
        o.wf(), o.headroom(), all_legit(o, d), idx <= d.len(),
        kill_loop_inv(o, m, d, idx), kill_loop_complete(o, m, d, idx),
        n.generations == m.generations, n.alive == m.alive, n.raised == m.raised, n.killed == m.killed, n.max_id == m.max_id,
        n.cache.wf(),
    ensures
        n.abs().core_eq(o.abs().kill_fold(d, idx)),
        n.cache@ == m.cache@ + ids(d.subrange(0, idx as int)) ==> {
            &&& n.wf()
            &&& n.abs().free == o.abs().killed_free(d, idx)
            &&& o.wf_complete() ==> n.wf_complete()
        },
        n.cache == m.cache ==> n.wf(),
{
    let f = o.abs().kill_fold(d, idx);
    lemma_kill_fold_frame(o.abs(), d, idx);
    lemma_kill_fold_distinct(o.abs(), d, idx);
    assert forall|k: int| n.gid(k) == m.gid(k) by {}
    assert(n.abs().hw =~= m.abs().hw);
    assert(n.abs().alive =~= f.alive && n.abs().raised =~= f.raised && n.abs().killed =~= f.killed);
    assert(n.abs().hw =~= f.hw);
    let a = ids(d.subrange(0, idx as int));
    assert forall|j: u32| #![trigger n.alive@.contains(j)] n.alive@.contains(j) <==> n.gid(j as int) > 0 by {
        assert(m.alive@.contains(j) <==> m.gid(j as int) > 0);
    }
    assert forall|j: u32| #![trigger n.raised@.contains(j)] n.raised@.contains(j) implies n.gid(j as int) <= 0 && (j as int) < n.max_id@ by {
        assert(m.raised@.contains(j));
    }
    assert forall|j: u32| #![trigger n.gid(j as int)] (j as int) >= n.max_id@ implies n.gid(j as int) == 0 by {
        assert(m.gid(j as int) == 0);
    }
    assert forall|j: u32| #![trigger n.killed@.contains(j)] n.killed@.contains(j) implies n.occ(j) by {
        assert(m.killed@.contains(j)); assert(m.occ(j));
    }
    if n.cache == m.cache {
        assert forall|k: int| 0 <= k < n.cache@.len() implies {
                let j = #[trigger] n.cache@[k];
                (j as int) < n.max_id@ && !n.occ(j) && n.gid(j as int) < 0 } by {
            let j = m.cache@[k];
            assert((j as int) < m.max_id@ && !m.occ(j) && m.gid(j as int) < 0);
        }
        assert(n.wf());
    }
    if n.cache@ == m.cache@ + a {
    assert forall|k: int| 0 <= k < n.cache@.len() implies {
            let j = #[trigger] n.cache@[k];
            (j as int) < n.max_id@ && !n.occ(j) && n.gid(j as int) < 0 } by {
        if k < m.cache@.len() {
            let j = m.cache@[k];
            assert(n.cache@[k] == j);
            assert((j as int) < m.max_id@ && !m.occ(j) && m.gid(j as int) < 0);
        } else {
            let y = k - m.cache@.len();
            assert(n.cache@[k] == a[y]);
            assert(a[y] == d[y].0);
            let j = d[y].0;
            assert(in_prefix(d, idx, j));
            assert(m.gid(j as int) < 0);
            assert(!f.alive.contains(j) && !f.raised.contains(j));
            assert(m.abs().alive.contains(j) == f.alive.contains(j));
            assert(m.abs().raised.contains(j) == f.raised.contains(j));
            assert(!m.occ(j));
            // j was occupied in o, hence below the counter
            assert(o.abs().occ(j));
            assert(o.occ(j));
            if o.alive@.contains(j) { assert(o.gid(j as int) > 0); if (j as int) >= o.max_id@ { assert(o.gid(j as int) == 0); } }
            assert((j as int) < o.max_id@);
            assert(m.abs().max_id == f.max_id);
        }
    }
    assert forall|k: int, l: int| 0 <= k < l < n.cache@.len() implies n.cache@[k] != n.cache@[l] by {
        let ml = m.cache@.len();
        if l < ml {
            assert(n.cache@[k] == m.cache@[k] && n.cache@[l] == m.cache@[l]);
        } else if k < ml {
            let y = l - ml;
            assert(n.cache@[l] == a[y] && a[y] == d[y].0);
            assert(n.cache@[k] == m.cache@[k]);
            assert(o.cache@[k] == m.cache@[k]);
            assert(!o.occ(o.cache@[k]));
            assert(o.abs().occ(d[y].0));
            assert(o.occ(d[y].0));
        } else {
            let x = k - ml; let y = l - ml;
            assert(n.cache@[k] == a[x] && n.cache@[l] == a[y]);
            assert(a[x] == d[x].0 && a[y] == d[y].0);
        }
    }
    assert(n.wf());
    assert(n.abs().free =~= o.abs().free + a);
    if o.wf_complete() {
        assert forall|j: u32| #![trigger n.occ(j)] (j as int) < n.max_id@ && !n.occ(j) implies n.cache@.contains(j) by {
            assert(!m.occ(j));
            if in_prefix(d, idx, j) {
                let x = choose|x: int| 0 <= x < idx && x < d.len() && (#[trigger] d[x]).0 == j;
                assert(a[x] == j);
                assert(n.cache@[m.cache@.len() + x] == j);
            } else {
                assert(m.cache@.contains(j));
                let x = choose|x: int| 0 <= x < m.cache@.len() && m.cache@[x] == j;
                assert(n.cache@[x] == j);
            }
        }
    }
    }
}

// instantiates the quantified invariants at one index
pub proof fn lemma_gid_facts(a: &Allocator, id: u32)
    requires a.wf(), a.headroom_n(2),
    ensures
        -(i32::MAX - 2) < a.gid(id as int) < i32::MAX - 2,
        (id as int) < a.generations@.len() ==> zid(a.generations@[id as int]) == a.gid(id as int)
            && (a.generations@[id as int].0 is Some ==> a.gid(id as int) != 0),
        a.alive@.contains(id) <==> a.gid(id as int) > 0,
        a.raised@.contains(id) ==> a.gid(id as int) <= 0,
        a.occ(id) ==> a.cur_gen(id) == a.hw(id),
{
    assert(a.gid(id as int) == a.gid(id as int));
    if (id as int) < a.generations@.len() {
        let g = a.generations@[id as int];
        assert(g.0 is Some ==> zid(g) != 0);
    }
}

// under wf, an occupied index's comparison generation is its high-water generation
//@props C02
pub proof fn lemma_cur_gen_is_hw(a: &Allocator, i: u32)
    requires a.wf(), a.occ(i),
    ensures a.cur_gen(i) == a.hw(i), a.hw(i) >= 1,
{
    assert(a.alive@.contains(i) <==> a.gid(i as int) > 0);
    if a.raised@.contains(i) { assert(a.gid(i as int) <= 0); }
}

// ---------------------------------------------------------------- kill_fold facts
pub open spec fn in_prefix(d: Seq<Entity>, n: nat, i: u32) -> bool {
    exists|k: int| 0 <= k < n && k < d.len() && (#[trigger] d[k]).0 == i
}

pub proof fn lemma_in_prefix_step(d: Seq<Entity>, n: nat, i: u32)
    requires 0 < n <= d.len(),
    ensures in_prefix(d, n, i) == (in_prefix(d, (n - 1) as nat, i) || d[n - 1].0 == i),
{
    if in_prefix(d, n, i) {
        let k = choose|k: int| 0 <= k < n && k < d.len() && (#[trigger] d[k]).0 == i;
        if k < n - 1 { assert(in_prefix(d, (n - 1) as nat, i)); }
    }
    if in_prefix(d, (n - 1) as nat, i) {
        let k = choose|k: int| 0 <= k < n - 1 && k < d.len() && (#[trigger] d[k]).0 == i;
        assert(d[k].0 == i);
    }
    if d[n - 1].0 == i {
        assert(in_prefix(d, n, i));
    }
}

// kill_fold removes exactly the indices of d[0..n] from alive, raised and killed; nothing else moves
pub proof fn lemma_kill_fold_frame(s: AState, d: Seq<Entity>, n: nat)
    requires n <= d.len(),
    ensures
        s.kill_fold(d, n).hw == s.hw,
        s.kill_fold(d, n).free == s.free,
        s.kill_fold(d, n).max_id == s.max_id,
        forall|i: u32| #![trigger s.kill_fold(d, n).alive.contains(i)] s.kill_fold(d, n).alive.contains(i) == (s.alive.contains(i) && !in_prefix(d, n, i)),
        forall|i: u32| #![trigger s.kill_fold(d, n).raised.contains(i)] s.kill_fold(d, n).raised.contains(i) == (s.raised.contains(i) && !in_prefix(d, n, i)),
        forall|i: u32| #![trigger s.kill_fold(d, n).killed.contains(i)] s.kill_fold(d, n).killed.contains(i) == (s.killed.contains(i) && !in_prefix(d, n, i)),
    decreases n,
{
    if n > 0 {
        lemma_kill_fold_frame(s, d, (n - 1) as nat);
        let p = s.kill_fold(d, (n - 1) as nat);
        let q = s.kill_fold(d, n);
        assert(q == p.kill_one(d[n - 1]));
        assert forall|i: u32| #![trigger q.alive.contains(i)] q.alive.contains(i) == (s.alive.contains(i) && !in_prefix(d, n, i)) by {
            lemma_in_prefix_step(d, n, i);
            assert(q.alive.contains(i) == (p.alive.contains(i) && i != d[n - 1].0));
        }
        assert forall|i: u32| #![trigger q.raised.contains(i)] q.raised.contains(i) == (s.raised.contains(i) && !in_prefix(d, n, i)) by {
            lemma_in_prefix_step(d, n, i);
            assert(q.raised.contains(i) == (p.raised.contains(i) && i != d[n - 1].0));
        }
        assert forall|i: u32| #![trigger q.killed.contains(i)] q.killed.contains(i) == (s.killed.contains(i) && !in_prefix(d, n, i)) by {
            lemma_in_prefix_step(d, n, i);
            assert(q.killed.contains(i) == (p.killed.contains(i) && i != d[n - 1].0));
        }
    } else {
        assert forall|i: u32| !in_prefix(d, 0, i) by { }
    }
}

// indices killed by a successful prefix are pairwise distinct (each was occupied when its turn came)
pub proof fn lemma_kill_fold_distinct(s: AState, d: Seq<Entity>, n: nat)
    requires n <= d.len(), s.kill_ok_upto(d, n),
    ensures
        forall|x: int, y: int| 0 <= x < y < n ==> (#[trigger] d[x]).0 != (#[trigger] d[y]).0,
        forall|x: int| 0 <= x < n ==> s.occ((#[trigger] d[x]).0),
{
    assert forall|x: int, y: int| 0 <= x < y < n implies (#[trigger] d[x]).0 != (#[trigger] d[y]).0 by {
        let f = s.kill_fold(d, y as nat);
        assert(f.current(d[y]));
        lemma_kill_fold_frame(s, d, y as nat);
        if d[x].0 == d[y].0 {
            assert(in_prefix(d, y as nat, d[y].0));
            assert(!f.alive.contains(d[y].0));
            assert(!f.raised.contains(d[y].0));
        }
    }
    assert forall|x: int| 0 <= x < n implies s.occ((#[trigger] d[x]).0) by {
        let f = s.kill_fold(d, x as nat);
        assert(f.current(d[x]));
        lemma_kill_fold_frame(s, d, x as nat);
        assert(f.alive.contains(d[x].0) || f.raised.contains(d[x].0));
    }
}

// the stop position of a batch kill is unique: the result is a function of (state, batch)   (C20)
//@props C02 C20
pub proof fn lemma_kill_stop_unique(s: AState, d: Seq<Entity>, k1: nat, k2: nat)
    requires s.kill_stops_at(d, k1), s.kill_stops_at(d, k2),
    ensures k1 == k2,
{
    if k1 < k2 {
        assert(s.kill_fold(d, k1).current(d[k1 as int]));
    }
    if k2 < k1 {
        assert(s.kill_fold(d, k2).current(d[k2 as int]));
    }
}

