// Specification vocabulary for the entity allocator (src/world/entity.rs).
// Pure spec/proof code: no executable text. Every `*_next` function below is the
// single source used both in the `ensures` clauses attached to the real functions
// and in the trace lemmas at the end of this file.

pub open spec fn zid(z: ZeroableGeneration) -> int {
    match z.0 { Some(g) => g.0@ as int, None => 0 }
}

// identity of a handle: (index, generation number)
pub open spec fn hid(e: Entity) -> (u32, int) { (e.0, e.1.0@ as int) }

pub open spec fn ids(d: Seq<Entity>) -> Seq<u32> { d.map_values(|e: Entity| e.0) }

// ---------------------------------------------------------------- abstract state
pub struct AState {
    pub hw: spec_fn(u32) -> int,     // high-water generation per index (0 = never used); total
    pub alive: Set<u32>,       // merged, alive
    pub raised: Set<u32>,      // created through shared access, awaiting maintain
    pub killed: Set<u32>,      // deletion requested through shared access, awaiting maintain
    pub free: Seq<u32>,        // free list, last element is handed out first
    pub max_id: nat,           // number of indices ever taken from the counter
}

impl AState {
    pub open spec fn occ(self, i: u32) -> bool { self.alive.contains(i) || self.raised.contains(i) }
    pub open spec fn hwv(self, i: u32) -> int { (self.hw)(i) }
    pub open spec fn legit(self, e: Entity) -> bool { 1 <= e.1.0@ <= self.hwv(e.0) }
    pub open spec fn current(self, e: Entity) -> bool { self.occ(e.0) && e.1.0@ == self.hwv(e.0) }

    pub open spec fn next_index(self) -> u32 {
        if self.free.len() > 0 { self.free.last() } else { self.max_id as u32 }
    }
    pub open spec fn take_index(self) -> AState {
        if self.free.len() > 0 { AState { free: self.free.drop_last(), ..self } }
        else { AState { max_id: self.max_id + 1, ..self } }
    }
    // the handle every creation path returns
    pub open spec fn created(self) -> (u32, int) { (self.next_index(), self.hwv(self.next_index()) + 1) }
    pub open spec fn create_now(self) -> AState {
        let i = self.next_index();
        let s = self.take_index();
        AState { hw: |j: u32| if j == i { s.hwv(i) + 1 } else { s.hwv(j) }, alive: s.alive.insert(i), ..s }
    }
    pub open spec fn create_deferred(self) -> AState {
        let i = self.next_index();
        let s = self.take_index();
        AState { hw: |j: u32| if j == i { s.hwv(i) + 1 } else { s.hwv(j) }, raised: s.raised.insert(i), ..s }
    }
    pub open spec fn kill_one(self, e: Entity) -> AState {
        AState { alive: self.alive.remove(e.0), raised: self.raised.remove(e.0), killed: self.killed.remove(e.0), ..self }
    }
    // state after immediately killing d[0..n] (free list not yet extended)
    pub open spec fn kill_fold(self, d: Seq<Entity>, n: nat) -> AState
        decreases n
    {
        if n == 0 { self } else { self.kill_fold(d, (n - 1) as nat).kill_one(d[n - 1]) }
    }
    pub open spec fn kill_ok_upto(self, d: Seq<Entity>, n: nat) -> bool {
        forall|j: nat| j < n ==> (#[trigger] self.kill_fold(d, j)).current(d[j as int])
    }
    // batch kill stops at position k (k == d.len() means the whole batch succeeded)
    pub open spec fn kill_stops_at(self, d: Seq<Entity>, k: nat) -> bool {
        &&& k <= d.len()
        &&& self.kill_ok_upto(d, k)
        &&& k < d.len() ==> !self.kill_fold(d, k).current(d[k as int])
    }
    // core (everything but the free list) of the state after a batch kill that stopped at k
    pub open spec fn killed_core(self, d: Seq<Entity>, k: nat) -> AState { self.kill_fold(d, k) }
    pub open spec fn killed_free(self, d: Seq<Entity>, k: nat) -> Seq<u32> { self.free + ids(d.subrange(0, k as int)) }

    pub open spec fn defer_kill(self, e: Entity) -> AState { AState { killed: self.killed.insert(e.0), ..self } }

    pub open spec fn merged(self) -> AState {
        AState {
            alive: (self.alive + self.raised) - self.killed,
            raised: Set::empty(),
            killed: Set::empty(),
            free: self.free + sorted_seq(self.killed),
            ..self
        }
    }
    // handles returned by merge: the killed indices ascending, each with its current generation
    pub open spec fn merged_out(self) -> Seq<(u32, int)> {
        sorted_seq(self.killed).map_values(|i: u32| (i, self.hwv(i)))
    }

    pub open spec fn core_eq(self, o: AState) -> bool {
        &&& self.hw =~= o.hw
        &&& self.alive =~= o.alive
        &&& self.raised =~= o.raised
        &&& self.killed =~= o.killed
        &&& self.max_id == o.max_id
    }
}

// ---------------------------------------------------------------- concrete invariants
impl EntityCache {
    pub open spec fn wf(&self) -> bool { self.len@ <= self.cache@.len() }
    pub open spec fn view(&self) -> Seq<Index> { self.cache@.subrange(0, self.len@ as int) }
}

impl Allocator {
    // generation id stored for index i (0 when out of range / never used)
    pub open spec fn gid(&self, i: int) -> int {
        if 0 <= i < self.generations@.len() { zid(self.generations@[i]) } else { 0 }
    }
    pub open spec fn occ(&self, i: u32) -> bool { self.alive@.contains(i) || self.raised@.contains(i) }
    pub open spec fn hw(&self, i: u32) -> int {
        if self.alive@.contains(i) { self.gid(i as int) }
        else if self.raised@.contains(i) { 1 - self.gid(i as int) }
        else { -self.gid(i as int) }
    }
    pub open spec fn abs(&self) -> AState {
        AState {
            hw: |i: u32| self.hw(i),
            alive: self.alive@,
            raised: self.raised@,
            killed: self.killed@,
            free: self.cache@,
            max_id: self.max_id@ as nat,
        }
    }
    // safety invariant (C01, C02)
    pub open spec fn wf(&self) -> bool {
        &&& self.cache.wf()
        &&& forall|i: int| 0 <= i < self.generations@.len() ==> ((#[trigger] self.generations@[i]).0 is Some ==> zid(self.generations@[i]) != 0)
        &&& forall|i: u32| #![trigger self.alive@.contains(i)] self.alive@.contains(i) <==> self.gid(i as int) > 0
        &&& forall|i: u32| #![trigger self.raised@.contains(i)] self.raised@.contains(i) ==> self.gid(i as int) <= 0 && (i as int) < self.max_id@
        &&& forall|i: u32| #![trigger self.gid(i as int)] (i as int) >= self.max_id@ ==> self.gid(i as int) == 0
        &&& forall|i: u32| #![trigger self.killed@.contains(i)] self.killed@.contains(i) ==> self.occ(i)
        &&& forall|k: int| 0 <= k < self.cache@.len() ==> {
                let i = #[trigger] self.cache@[k];
                (i as int) < self.max_id@ && !self.occ(i) && self.gid(i as int) < 0 }
        &&& forall|k: int, l: int| 0 <= k < l < self.cache@.len() ==> self.cache@[k] != self.cache@[l]
    }
    // completeness of the free list (C17): every index below the counter that is not occupied is on it
    pub open spec fn wf_complete(&self) -> bool {
        forall|i: u32| #![trigger self.occ(i)] (i as int) < self.max_id@ && !self.occ(i) ==> self.cache@.contains(i)
    }
    // machine-arithmetic side conditions (listed as assumptions): fewer than 2^24 indices ever
    // allocated (hibitset's own hard limit), fewer than 2^31-3 reuses of one index.
    pub open spec fn headroom_n(&self, m: int) -> bool {
        &&& self.max_id@ + m <= 0x100_0003
        &&& forall|i: u32| -(i32::MAX - m) < #[trigger] self.gid(i as int) && self.gid(i as int) < i32::MAX - m
    }
    // public operations demand a margin of 3, leaf functions of 2 (one batch kill moves a generation by at most 1)
    pub open spec fn headroom(&self) -> bool { self.headroom_n(3) }
    // the generation is_alive / entity() / the entities join compare against or return for index i
    pub open spec fn cur_gen(&self, i: u32) -> int {
        let z = self.gid(i as int);
        if z <= 0 && self.raised@.contains(i) { 1 - z } else if z != 0 { z } else { 1 }
    }
    // what is_alive computes
    pub open spec fn alive_spec(&self, e: Entity) -> bool { e.1.0@ == self.cur_gen(e.0) }
}

// legit handles: is_alive is exactly "current"
//@props C02 C03
pub proof fn lemma_alive_spec_is_current(a: &Allocator, e: Entity)
    requires a.wf(), a.abs().legit(e),
    ensures a.alive_spec(e) == a.abs().current(e),
{
    let s = a.abs();
    assert(s.hwv(e.0) == a.hw(e.0));
    assert(s.occ(e.0) == a.occ(e.0));
    assert(a.alive@.contains(e.0) <==> a.gid(e.0 as int) > 0);
    if a.raised@.contains(e.0) { assert(a.gid(e.0 as int) <= 0); }
}

// a legit handle that is not current names an index whose generation slot exists
//@props C02
pub proof fn lemma_legit_in_range(a: &Allocator, e: Entity)
    requires a.wf(), a.abs().legit(e),
    ensures a.abs().current(e) || (e.0 as int) < a.generations@.len(),
{
    let s = a.abs();
    assert(s.hwv(e.0) == a.hw(e.0));
    assert(s.occ(e.0) == a.occ(e.0));
    assert(a.alive@.contains(e.0) <==> a.gid(e.0 as int) > 0);
}

pub proof fn lemma_abs_defer_kill(o: &Allocator, n: &Allocator, e: Entity)
    requires
        n.generations == o.generations, n.alive == o.alive, n.raised == o.raised, n.cache == o.cache, n.max_id == o.max_id,
        n.killed@ == o.killed@.insert(e.0) || n.killed == o.killed,
    ensures
        n.killed@ == o.killed@.insert(e.0) ==> n.abs() == o.abs().defer_kill(e),
        n.killed == o.killed ==> n.abs() == o.abs(),
{
    assert(n.abs().hw =~= o.abs().hw);
}

// ---------------------------------------------------------------- concrete transition lemmas
// (stated over the old and the new value of the real struct; called from proof hints in the real bodies)

pub open spec fn gens_extend_except(o: &Allocator, n: &Allocator, id: int) -> bool {
    &&& n.generations@.len() >= o.generations@.len()
    &&& forall|k: int| 0 <= k < n.generations@.len() && k != id ==>
            (k < o.generations@.len() ==> #[trigger] n.generations@[k] == o.generations@[k])
            && (k >= o.generations@.len() ==> n.generations@[k].0 is None)
}

pub proof fn lemma_gid_frame(o: &Allocator, n: &Allocator, id: int)
    requires gens_extend_except(o, n, id),
    ensures forall|k: int| k != id ==> #[trigger] n.gid(k) == o.gid(k),
{
    assert forall|k: int| k != id implies #[trigger] n.gid(k) == o.gid(k) by {
        if 0 <= k < n.generations@.len() {
            if k < o.generations@.len() { assert(n.generations@[k] == o.generations@[k]); }
            else { assert(n.generations@[k].0 is None); }
        }
    }
}

pub proof fn lemma_kill_atomic(o: &Allocator, n: &Allocator, e: Entity)
    requires
        o.wf(),
        n.generations == o.generations, n.alive == o.alive, n.raised == o.raised, n.cache == o.cache, n.max_id == o.max_id,
        (n.killed@ == o.killed@.insert(e.0) && o.occ(e.0)) || n.killed == o.killed,
    ensures
        n.wf(),
        o.wf_complete() ==> n.wf_complete(),
        forall|k: int| n.gid(k) == o.gid(k),
{
    assert forall|k: int| n.gid(k) == o.gid(k) by {}
    assert forall|i: u32| #![trigger n.killed@.contains(i)] n.killed@.contains(i) implies n.occ(i) by {
        if i != e.0 || n.killed == o.killed { assert(o.killed@.contains(i)); assert(o.occ(i)); }
    }
    assert forall|i: u32| #![trigger n.alive@.contains(i)] n.alive@.contains(i) <==> n.gid(i as int) > 0 by {
        assert(o.alive@.contains(i) <==> o.gid(i as int) > 0);
    }
    assert forall|i: u32| #![trigger n.raised@.contains(i)] n.raised@.contains(i) implies n.gid(i as int) <= 0 && (i as int) < n.max_id@ by {
        assert(o.raised@.contains(i));
    }
    assert forall|i: u32| #![trigger n.gid(i as int)] (i as int) >= n.max_id@ implies n.gid(i as int) == 0 by {
        assert(o.gid(i as int) == 0);
    }
    assert forall|k: int| 0 <= k < n.cache@.len() implies {
            let i = #[trigger] n.cache@[k];
            (i as int) < n.max_id@ && !n.occ(i) && n.gid(i as int) < 0 } by {
        let i = o.cache@[k];
        assert((i as int) < o.max_id@ && !o.occ(i) && o.gid(i as int) < 0);
    }
    if o.wf_complete() {
        assert forall|i: u32| #![trigger n.occ(i)] (i as int) < n.max_id@ && !n.occ(i) implies n.cache@.contains(i) by {
            assert(!o.occ(i));
        }
    }
}

// shared by allocate (now = true: index joins `alive`, stored generation raised)
// and allocate_atomic (now = false: index joins `raised`, stored generation untouched)
pub proof fn lemma_alloc(o: &Allocator, n: &Allocator, id: u32, now: bool)
    requires
        o.wf(), o.headroom(),
        n.killed == o.killed,
        n.cache.wf(),
        o.cache@.len() > 0 ==> id == o.cache@.last() && n.cache@ == o.cache@.drop_last() && n.max_id@ == o.max_id@,
        o.cache@.len() == 0 ==> id as int == o.max_id@ && n.cache@ == o.cache@ && n.max_id@ == o.max_id@ + 1,
        now ==> n.alive@ == o.alive@.insert(id) && n.raised == o.raised,
        now ==> gens_extend_except(o, n, id as int),
        now ==> (id as int) < n.generations@.len(),
        now ==> zid(n.generations@[id as int]) == 1 - o.gid(id as int) && n.generations@[id as int].0 is Some,
        !now ==> n.raised@ == o.raised@.insert(id) && n.alive == o.alive && n.generations == o.generations,
    ensures
        n.wf(),
        n.abs() == (if now { o.abs().create_now() } else { o.abs().create_deferred() }),
        o.wf_complete() ==> n.wf_complete(),
        n.headroom_n(2),
        !o.occ(id), o.gid(id as int) <= 0,
        n.cur_gen(id) == o.abs().created().1,
        id == o.abs().next_index(),
{
    let len = o.cache@.len() as int;
    if len > 0 {
        assert(o.cache@[len - 1] == id);
        assert((id as int) < o.max_id@ && !o.occ(id) && o.gid(id as int) < 0);
    } else {
        assert(o.gid(id as int) == 0);
        assert(!o.occ(id)) by {
            if o.alive@.contains(id) { assert(o.gid(id as int) > 0); }
            if o.raised@.contains(id) { assert((id as int) < o.max_id@); }
        }
    }
    assert(o.alive@.contains(id) <==> o.gid(id as int) > 0);
    if now { lemma_gid_frame(o, n, id as int); }
    assert forall|k: int| k != id as int implies #[trigger] n.gid(k) == o.gid(k) by {}
    assert(n.gid(id as int) == (if now { 1 - o.gid(id as int) } else { o.gid(id as int) }));
    // ---- wf
    assert forall|i: int| 0 <= i < n.generations@.len() implies ((#[trigger] n.generations@[i]).0 is Some ==> zid(n.generations@[i]) != 0) by {
        if now {
            if i != id as int {
                if i < o.generations@.len() { assert(n.generations@[i] == o.generations@[i]); }
            }
        }
    }
    assert forall|i: u32| #![trigger n.alive@.contains(i)] n.alive@.contains(i) <==> n.gid(i as int) > 0 by {
        assert(o.alive@.contains(i) <==> o.gid(i as int) > 0);
        if i != id { assert(n.gid(i as int) == o.gid(i as int)); }
    }
    assert forall|i: u32| #![trigger n.raised@.contains(i)] n.raised@.contains(i) implies n.gid(i as int) <= 0 && (i as int) < n.max_id@ by {
        if i != id { assert(o.raised@.contains(i)); assert(n.gid(i as int) == o.gid(i as int)); }
    }
    assert forall|i: u32| #![trigger n.gid(i as int)] (i as int) >= n.max_id@ implies n.gid(i as int) == 0 by {
        assert(i != id);
        assert(n.gid(i as int) == o.gid(i as int));
    }
    assert forall|i: u32| #![trigger n.killed@.contains(i)] n.killed@.contains(i) implies n.occ(i) by {
        assert(o.killed@.contains(i)); assert(o.occ(i));
    }
    assert forall|k: int| 0 <= k < n.cache@.len() implies {
            let i = #[trigger] n.cache@[k];
            (i as int) < n.max_id@ && !n.occ(i) && n.gid(i as int) < 0 } by {
        let i = o.cache@[k];
        assert(n.cache@[k] == i);
        assert((i as int) < o.max_id@ && !o.occ(i) && o.gid(i as int) < 0);
        if len > 0 { assert(o.cache@[k] != o.cache@[len - 1]); }
        assert(i != id);
        assert(n.gid(i as int) == o.gid(i as int));
    }
    assert forall|k: int, l: int| 0 <= k < l < n.cache@.len() implies n.cache@[k] != n.cache@[l] by {
        assert(n.cache@[k] == o.cache@[k] && n.cache@[l] == o.cache@[l]);
    }
    // ---- abstract state
    let a = if now { o.abs().create_now() } else { o.abs().create_deferred() };
    assert(o.abs().next_index() == id);
    assert forall|i: u32| n.hw(i) == #[trigger] (a.hw)(i) by {
        if i != id { assert(n.gid(i as int) == o.gid(i as int)); }
    }
    assert(n.abs().hw =~= a.hw);
    assert(n.abs().free =~= a.free);
    // ---- completeness of the free list
    if o.wf_complete() {
        assert forall|i: u32| #![trigger n.occ(i)] (i as int) < n.max_id@ && !n.occ(i) implies n.cache@.contains(i) by {
            assert(i != id);
            assert(!o.occ(i));
            assert((i as int) < o.max_id@);
            assert(o.cache@.contains(i));
            let k = choose|k: int| 0 <= k < o.cache@.len() && o.cache@[k] == i;
            assert(k != len - 1);
            assert(n.cache@[k] == i);
        }
    }
    assert forall|i: u32| -(i32::MAX - 2) < #[trigger] n.gid(i as int) && n.gid(i as int) < i32::MAX - 2 by {
        assert(-(i32::MAX - 3) < o.gid(i as int) && o.gid(i as int) < i32::MAX - 3);
        assert(-(i32::MAX - 3) < o.gid(id as int) && o.gid(id as int) < i32::MAX - 3);
        if i != id { assert(n.gid(i as int) == o.gid(i as int)); }
    }
}

// ---------------------------------------------------------------- Allocator::kill
pub open spec fn kill_pos(r: Result<(), (WrongGeneration, usize)>, d: Seq<Entity>) -> nat {
    match r { Ok(_) => d.len(), Err((_, k)) => k as nat }
}

pub open spec fn all_legit(o: &Allocator, d: Seq<Entity>) -> bool {
    forall|j: int| 0 <= j < d.len() ==> o.abs().legit(#[trigger] d[j])
}

// state of the batch-kill loop after n handles: the concrete allocator `s` mirrors kill_fold(d, n)
pub open spec fn kill_loop_inv(o: &Allocator, s: &Allocator, d: Seq<Entity>, n: nat) -> bool {
    &&& n <= d.len()
    &&& s.wf()
    &&& s.headroom_n(2)
    &&& o.abs().kill_ok_upto(d, n)
    &&& s.abs().core_eq(o.abs().kill_fold(d, n))
    &&& s.cache == o.cache
    &&& forall|i: u32| !in_prefix(d, n, i) ==> #[trigger] s.gid(i as int) == o.gid(i as int)
    &&& forall|i: u32| in_prefix(d, n, i) ==> #[trigger] s.gid(i as int) < 0
}
// C17 part: every unoccupied index below the counter is on the free list or among the handles killed so far
pub open spec fn kill_loop_complete(o: &Allocator, s: &Allocator, d: Seq<Entity>, n: nat) -> bool {
    o.wf_complete() ==> forall|i: u32| #![trigger s.occ(i)] (i as int) < s.max_id@ && !s.occ(i) && !in_prefix(d, n, i) ==> s.cache@.contains(i)
}

pub proof fn lemma_kill_init(o: &Allocator, d: Seq<Entity>)
    requires o.wf(), o.headroom(),
    ensures kill_loop_inv(o, o, d, 0), kill_loop_complete(o, o, d, 0),
{
    assert forall|i: u32| !in_prefix(d, 0, i) by {}
    assert(o.abs().kill_fold(d, 0) == o.abs());
}

pub proof fn lemma_kill_fold_hw(s: AState, d: Seq<Entity>, n: nat)
    requires n <= d.len(),
    ensures forall|i: u32| #![trigger s.kill_fold(d, n).hwv(i)] s.kill_fold(d, n).hwv(i) == s.hwv(i),
{
    lemma_kill_fold_frame(s, d, n);
}

// the current handle of the loop is alive in the concrete state iff it is current in the folded abstract state
pub proof fn lemma_kill_cur(o: &Allocator, s: &Allocator, d: Seq<Entity>, idx: nat)
    requires o.wf(), all_legit(o, d), idx < d.len(), kill_loop_inv(o, s, d, idx),
    ensures
        s.alive_spec(d[idx as int]) == o.abs().kill_fold(d, idx).current(d[idx as int]),
        s.abs().legit(d[idx as int]),
        s.abs().current(d[idx as int]) == o.abs().kill_fold(d, idx).current(d[idx as int]),
{
    let e = d[idx as int];
    let f = o.abs().kill_fold(d, idx);
    lemma_kill_fold_frame(o.abs(), d, idx);
    assert(o.abs().legit(e));
    assert(s.abs().hw =~= f.hw);
    assert(s.abs().hwv(e.0) == f.hwv(e.0));
    assert(f.hwv(e.0) == o.abs().hwv(e.0));
    lemma_alive_spec_is_current(s, e);
}

pub proof fn lemma_kill_stop(o: &Allocator, s: &Allocator, d: Seq<Entity>, idx: nat)
    requires o.wf(), all_legit(o, d), idx < d.len(), kill_loop_inv(o, s, d, idx), !s.alive_spec(d[idx as int]),
    ensures o.abs().kill_stops_at(d, idx), (d[idx as int].0 as int) < s.generations@.len(),
{
    lemma_kill_cur(o, s, d, idx);
    lemma_legit_in_range(s, d[idx as int]);
}

pub proof fn lemma_kill_iter(o: &Allocator, p: &Allocator, n: &Allocator, d: Seq<Entity>, idx: nat)
    requires
        o.wf(), o.headroom(), all_legit(o, d), idx < d.len(),
        kill_loop_inv(o, p, d, idx), kill_loop_complete(o, p, d, idx),
        p.alive_spec(d[idx as int]),
        n.alive@ == p.alive@.remove(d[idx as int].0),
        n.raised@ == p.raised@.remove(d[idx as int].0),
        n.killed@ == p.killed@.remove(d[idx as int].0),
        n.cache == p.cache, n.max_id == p.max_id,
        gens_extend_except(p, n, d[idx as int].0 as int),
        (d[idx as int].0 as int) < n.generations@.len(),
        n.generations@[d[idx as int].0 as int].0 is Some,
        zid(n.generations@[d[idx as int].0 as int]) == (if p.raised@.contains(d[idx as int].0) { p.gid(d[idx as int].0 as int) - 1 } else { -p.gid(d[idx as int].0 as int) }),
    ensures
        kill_loop_inv(o, n, d, idx + 1), kill_loop_complete(o, n, d, idx + 1),
{
    let e = d[idx as int];
    let i = e.0;
    let f = o.abs().kill_fold(d, idx);
    let f2 = o.abs().kill_fold(d, idx + 1);
    lemma_kill_cur(o, p, d, idx);
    lemma_kill_fold_frame(o.abs(), d, idx);
    lemma_kill_fold_frame(o.abs(), d, idx + 1);
    assert(f2 == f.kill_one(e));
    assert(f.current(e));
    // i is occupied in p and was not touched by the prefix
    assert(p.occ(i)) by { assert(p.abs().occ(i)); }
    assert(!in_prefix(d, idx, i)) by {
        if in_prefix(d, idx, i) { assert(!f.alive.contains(i) && !f.raised.contains(i)); }
    }
    assert(p.gid(i as int) == o.gid(i as int));
    assert(p.alive@.contains(i) <==> p.gid(i as int) > 0);
    if p.raised@.contains(i) { assert(p.gid(i as int) <= 0); }
    lemma_gid_frame(p, n, i as int);
    assert forall|k: int| k != i as int implies #[trigger] n.gid(k) == p.gid(k) by {}
    assert(n.gid(i as int) < 0);
    // ---- kill_ok_upto(idx + 1)
    assert forall|j: nat| j < idx + 1 implies (#[trigger] o.abs().kill_fold(d, j)).current(d[j as int]) by {
        if j == idx { } else { assert(o.abs().kill_fold(d, j).current(d[j as int])); }
    }
    // ---- wf(n)
    assert forall|k: int| 0 <= k < n.generations@.len() implies ((#[trigger] n.generations@[k]).0 is Some ==> zid(n.generations@[k]) != 0) by {
        if k != i as int && k < p.generations@.len() { assert(n.generations@[k] == p.generations@[k]); }
    }
    assert forall|j: u32| #![trigger n.alive@.contains(j)] n.alive@.contains(j) <==> n.gid(j as int) > 0 by {
        assert(p.alive@.contains(j) <==> p.gid(j as int) > 0);
        if j != i { assert(n.gid(j as int) == p.gid(j as int)); }
    }
    assert forall|j: u32| #![trigger n.raised@.contains(j)] n.raised@.contains(j) implies n.gid(j as int) <= 0 && (j as int) < n.max_id@ by {
        assert(p.raised@.contains(j) && j != i);
        assert(n.gid(j as int) == p.gid(j as int));
    }
    assert forall|j: u32| #![trigger n.gid(j as int)] (j as int) >= n.max_id@ implies n.gid(j as int) == 0 by {
        assert(p.gid(j as int) == 0);
        if j == i {
            if p.alive@.contains(i) { assert(p.gid(i as int) > 0); }
            assert(p.raised@.contains(i));
            assert((i as int) < p.max_id@);
        }
        assert(n.gid(j as int) == p.gid(j as int));
    }
    assert forall|j: u32| #![trigger n.killed@.contains(j)] n.killed@.contains(j) implies n.occ(j) by {
        assert(p.killed@.contains(j) && j != i);
        assert(p.occ(j));
    }
    assert forall|k: int| 0 <= k < n.cache@.len() implies {
            let j = #[trigger] n.cache@[k];
            (j as int) < n.max_id@ && !n.occ(j) && n.gid(j as int) < 0 } by {
        let j = p.cache@[k];
        assert((j as int) < p.max_id@ && !p.occ(j) && p.gid(j as int) < 0);
        assert(j != i);
        assert(n.gid(j as int) == p.gid(j as int));
    }
    assert(n.wf());
    // ---- headroom
    assert forall|k: u32| -(i32::MAX - 2) < #[trigger] n.gid(k as int) && n.gid(k as int) < i32::MAX - 2 by {
        assert(-(i32::MAX - 2) < p.gid(k as int) && p.gid(k as int) < i32::MAX - 2);
        assert(-(i32::MAX - 3) < o.gid(i as int) && o.gid(i as int) < i32::MAX - 3);
        if k != i { assert(n.gid(k as int) == p.gid(k as int)); }
    }
    // ---- abstract state
    assert forall|j: u32| n.hw(j) == p.hw(j) by {
        if j != i { assert(n.gid(j as int) == p.gid(j as int)); }
    }
    assert forall|j: u32| #[trigger] (n.abs().hw)(j) == (f2.hw)(j) by {
        assert(n.hw(j) == p.hw(j));
        assert((p.abs().hw)(j) == (f.hw)(j));
    }
    assert(n.abs().hw =~= f2.hw);
    assert(n.abs().alive =~= f2.alive);
    assert(n.abs().raised =~= f2.raised);
    assert(n.abs().killed =~= f2.killed);
    // ---- gid frame / killed ones negative
    assert forall|j: u32| !in_prefix(d, idx + 1, j) implies #[trigger] n.gid(j as int) == o.gid(j as int) by {
        lemma_in_prefix_step(d, idx + 1, j);
        assert(j != i && !in_prefix(d, idx, j));
        assert(p.gid(j as int) == o.gid(j as int));
        assert(n.gid(j as int) == p.gid(j as int));
    }
    assert forall|j: u32| in_prefix(d, idx + 1, j) implies #[trigger] n.gid(j as int) < 0 by {
        lemma_in_prefix_step(d, idx + 1, j);
        if j != i { assert(in_prefix(d, idx, j)); assert(p.gid(j as int) < 0); assert(n.gid(j as int) == p.gid(j as int)); }
    }
    // ---- completeness (C17)
    if o.wf_complete() {
        assert forall|j: u32| #![trigger n.occ(j)] (j as int) < n.max_id@ && !n.occ(j) && !in_prefix(d, idx + 1, j) implies n.cache@.contains(j) by {
            lemma_in_prefix_step(d, idx + 1, j);
            assert(j != i && !in_prefix(d, idx, j));
            assert(!p.occ(j));
        }
    }
}

pub proof fn lemma_ids_prefix(d: Seq<Entity>, n: nat, i: u32)
    requires n <= d.len(),
    ensures ids(d.subrange(0, n as int)).contains(i) == in_prefix(d, n, i),
{
    let a = ids(d.subrange(0, n as int));
    if a.contains(i) {
        let k = choose|k: int| 0 <= k < a.len() && a[k] == i;
        assert(d[k].0 == i);
    }
    if in_prefix(d, n, i) {
        let k = choose|k: int| 0 <= k < n && k < d.len() && (#[trigger] d[k]).0 == i;
        assert(a[k] == i);
    }
}

// after the loop stopped at idx (idx == d.len(): ran to the end): if the free list was extended by the ids
// of d[0..idx], the result is well formed, pins the free list, and keeps it complete
pub proof fn lemma_kill_done(o: &Allocator, m: &Allocator, n: &Allocator, d: Seq<Entity>, idx: nat)
    requires
        o.wf(), o.headroom(), all_legit(o, d), idx <= d.len(),
        kill_loop_inv(o, m, d, idx), kill_loop_complete(o, m, d, idx),
        n.generations == m.generations, n.alive == m.alive, n.raised == m.raised, n.killed == m.killed, n.max_id == m.max_id,
        n.cache.wf(),
    ensures
        n.abs().core_eq(o.abs().kill_fold(d, idx)),
        n.cache@ == m.cache@ + ids(d.subrange(0, idx as int)) ==> {
            &&& n.wf()
            &&& n.abs().free == o.abs().killed_free(d, idx)
            &&& o.wf_complete() ==> n.wf_complete()
        },
        n.cache == m.cache ==> n.wf(),
{
    let f = o.abs().kill_fold(d, idx);
    lemma_kill_fold_frame(o.abs(), d, idx);
    lemma_kill_fold_distinct(o.abs(), d, idx);
    assert forall|k: int| n.gid(k) == m.gid(k) by {}
    assert(n.abs().hw =~= m.abs().hw);
    assert(n.abs().alive =~= f.alive && n.abs().raised =~= f.raised && n.abs().killed =~= f.killed);
    assert(n.abs().hw =~= f.hw);
    let a = ids(d.subrange(0, idx as int));
    assert forall|j: u32| #![trigger n.alive@.contains(j)] n.alive@.contains(j) <==> n.gid(j as int) > 0 by {
        assert(m.alive@.contains(j) <==> m.gid(j as int) > 0);
    }
    assert forall|j: u32| #![trigger n.raised@.contains(j)] n.raised@.contains(j) implies n.gid(j as int) <= 0 && (j as int) < n.max_id@ by {
        assert(m.raised@.contains(j));
    }
    assert forall|j: u32| #![trigger n.gid(j as int)] (j as int) >= n.max_id@ implies n.gid(j as int) == 0 by {
        assert(m.gid(j as int) == 0);
    }
    assert forall|j: u32| #![trigger n.killed@.contains(j)] n.killed@.contains(j) implies n.occ(j) by {
        assert(m.killed@.contains(j)); assert(m.occ(j));
    }
    if n.cache == m.cache {
        assert forall|k: int| 0 <= k < n.cache@.len() implies {
                let j = #[trigger] n.cache@[k];
                (j as int) < n.max_id@ && !n.occ(j) && n.gid(j as int) < 0 } by {
            let j = m.cache@[k];
            assert((j as int) < m.max_id@ && !m.occ(j) && m.gid(j as int) < 0);
        }
        assert(n.wf());
    }
    if n.cache@ == m.cache@ + a {
    assert forall|k: int| 0 <= k < n.cache@.len() implies {
            let j = #[trigger] n.cache@[k];
            (j as int) < n.max_id@ && !n.occ(j) && n.gid(j as int) < 0 } by {
        if k < m.cache@.len() {
            let j = m.cache@[k];
            assert(n.cache@[k] == j);
            assert((j as int) < m.max_id@ && !m.occ(j) && m.gid(j as int) < 0);
        } else {
            let y = k - m.cache@.len();
            assert(n.cache@[k] == a[y]);
            assert(a[y] == d[y].0);
            let j = d[y].0;
            assert(in_prefix(d, idx, j));
            assert(m.gid(j as int) < 0);
            assert(!f.alive.contains(j) && !f.raised.contains(j));
            assert(m.abs().alive.contains(j) == f.alive.contains(j));
            assert(m.abs().raised.contains(j) == f.raised.contains(j));
            assert(!m.occ(j));
            // j was occupied in o, hence below the counter
            assert(o.abs().occ(j));
            assert(o.occ(j));
            if o.alive@.contains(j) { assert(o.gid(j as int) > 0); if (j as int) >= o.max_id@ { assert(o.gid(j as int) == 0); } }
            assert((j as int) < o.max_id@);
            assert(m.abs().max_id == f.max_id);
        }
    }
    assert forall|k: int, l: int| 0 <= k < l < n.cache@.len() implies n.cache@[k] != n.cache@[l] by {
        let ml = m.cache@.len();
        if l < ml {
            assert(n.cache@[k] == m.cache@[k] && n.cache@[l] == m.cache@[l]);
        } else if k < ml {
            let y = l - ml;
            assert(n.cache@[l] == a[y] && a[y] == d[y].0);
            assert(n.cache@[k] == m.cache@[k]);
            assert(o.cache@[k] == m.cache@[k]);
            assert(!o.occ(o.cache@[k]));
            assert(o.abs().occ(d[y].0));
            assert(o.occ(d[y].0));
        } else {
            let x = k - ml; let y = l - ml;
            assert(n.cache@[k] == a[x] && n.cache@[l] == a[y]);
            assert(a[x] == d[x].0 && a[y] == d[y].0);
        }
    }
    assert(n.wf());
    assert(n.abs().free =~= o.abs().free + a);
    if o.wf_complete() {
        assert forall|j: u32| #![trigger n.occ(j)] (j as int) < n.max_id@ && !n.occ(j) implies n.cache@.contains(j) by {
            assert(!m.occ(j));
            if in_prefix(d, idx, j) {
                let x = choose|x: int| 0 <= x < idx && x < d.len() && (#[trigger] d[x]).0 == j;
                assert(a[x] == j);
                assert(n.cache@[m.cache@.len() + x] == j);
            } else {
                assert(m.cache@.contains(j));
                let x = choose|x: int| 0 <= x < m.cache@.len() && m.cache@[x] == j;
                assert(n.cache@[x] == j);
            }
        }
    }
    }
}

// instantiates the quantified invariants at one index
pub proof fn lemma_gid_facts(a: &Allocator, id: u32)
    requires a.wf(), a.headroom_n(2),
    ensures
        -(i32::MAX - 2) < a.gid(id as int) < i32::MAX - 2,
        (id as int) < a.generations@.len() ==> zid(a.generations@[id as int]) == a.gid(id as int)
            && (a.generations@[id as int].0 is Some ==> a.gid(id as int) != 0),
        a.alive@.contains(id) <==> a.gid(id as int) > 0,
        a.raised@.contains(id) ==> a.gid(id as int) <= 0,
        a.occ(id) ==> a.cur_gen(id) == a.hw(id),
{
    assert(a.gid(id as int) == a.gid(id as int));
    if (id as int) < a.generations@.len() {
        let g = a.generations@[id as int];
        assert(g.0 is Some ==> zid(g) != 0);
    }
}

// under wf, an occupied index's comparison generation is its high-water generation
//@props C02
pub proof fn lemma_cur_gen_is_hw(a: &Allocator, i: u32)
    requires a.wf(), a.occ(i),
    ensures a.cur_gen(i) == a.hw(i), a.hw(i) >= 1,
{
    assert(a.alive@.contains(i) <==> a.gid(i as int) > 0);
    if a.raised@.contains(i) { assert(a.gid(i as int) <= 0); }
}

// ---------------------------------------------------------------- kill_fold facts
pub open spec fn in_prefix(d: Seq<Entity>, n: nat, i: u32) -> bool {
    exists|k: int| 0 <= k < n && k < d.len() && (#[trigger] d[k]).0 == i
}

pub proof fn lemma_in_prefix_step(d: Seq<Entity>, n: nat, i: u32)
    requires 0 < n <= d.len(),
    ensures in_prefix(d, n, i) == (in_prefix(d, (n - 1) as nat, i) || d[n - 1].0 == i),
{
    if in_prefix(d, n, i) {
        let k = choose|k: int| 0 <= k < n && k < d.len() && (#[trigger] d[k]).0 == i;
        if k < n - 1 { assert(in_prefix(d, (n - 1) as nat, i)); }
    }
    if in_prefix(d, (n - 1) as nat, i) {
        let k = choose|k: int| 0 <= k < n - 1 && k < d.len() && (#[trigger] d[k]).0 == i;
        assert(d[k].0 == i);
    }
    if d[n - 1].0 == i {
        assert(in_prefix(d, n, i));
    }
}

// kill_fold removes exactly the indices of d[0..n] from alive, raised and killed; nothing else moves
pub proof fn lemma_kill_fold_frame(s: AState, d: Seq<Entity>, n: nat)
    requires n <= d.len(),
    ensures
        s.kill_fold(d, n).hw == s.hw,
        s.kill_fold(d, n).free == s.free,
        s.kill_fold(d, n).max_id == s.max_id,
        forall|i: u32| #![trigger s.kill_fold(d, n).alive.contains(i)] s.kill_fold(d, n).alive.contains(i) == (s.alive.contains(i) && !in_prefix(d, n, i)),
        forall|i: u32| #![trigger s.kill_fold(d, n).raised.contains(i)] s.kill_fold(d, n).raised.contains(i) == (s.raised.contains(i) && !in_prefix(d, n, i)),
        forall|i: u32| #![trigger s.kill_fold(d, n).killed.contains(i)] s.kill_fold(d, n).killed.contains(i) == (s.killed.contains(i) && !in_prefix(d, n, i)),
    decreases n,
{
    if n > 0 {
        lemma_kill_fold_frame(s, d, (n - 1) as nat);
        let p = s.kill_fold(d, (n - 1) as nat);
        let q = s.kill_fold(d, n);
        assert(q == p.kill_one(d[n - 1]));
        assert forall|i: u32| #![trigger q.alive.contains(i)] q.alive.contains(i) == (s.alive.contains(i) && !in_prefix(d, n, i)) by {
            lemma_in_prefix_step(d, n, i);
            assert(q.alive.contains(i) == (p.alive.contains(i) && i != d[n - 1].0));
        }
        assert forall|i: u32| #![trigger q.raised.contains(i)] q.raised.contains(i) == (s.raised.contains(i) && !in_prefix(d, n, i)) by {
            lemma_in_prefix_step(d, n, i);
            assert(q.raised.contains(i) == (p.raised.contains(i) && i != d[n - 1].0));
        }
        assert forall|i: u32| #![trigger q.killed.contains(i)] q.killed.contains(i) == (s.killed.contains(i) && !in_prefix(d, n, i)) by {
            lemma_in_prefix_step(d, n, i);
            assert(q.killed.contains(i) == (p.killed.contains(i) && i != d[n - 1].0));
        }
    } else {
        assert forall|i: u32| !in_prefix(d, 0, i) by { }
    }
}

// indices killed by a successful prefix are pairwise distinct (each was occupied when its turn came)
pub proof fn lemma_kill_fold_distinct(s: AState, d: Seq<Entity>, n: nat)
    requires n <= d.len(), s.kill_ok_upto(d, n),
    ensures
        forall|x: int, y: int| 0 <= x < y < n ==> (#[trigger] d[x]).0 != (#[trigger] d[y]).0,
        forall|x: int| 0 <= x < n ==> s.occ((#[trigger] d[x]).0),
{
    assert forall|x: int, y: int| 0 <= x < y < n implies (#[trigger] d[x]).0 != (#[trigger] d[y]).0 by {
        let f = s.kill_fold(d, y as nat);
        assert(f.current(d[y]));
        lemma_kill_fold_frame(s, d, y as nat);
        if d[x].0 == d[y].0 {
            assert(in_prefix(d, y as nat, d[y].0));
            assert(!f.alive.contains(d[y].0));
            assert(!f.raised.contains(d[y].0));
        }
    }
    assert forall|x: int| 0 <= x < n implies s.occ((#[trigger] d[x]).0) by {
        let f = s.kill_fold(d, x as nat);
        assert(f.current(d[x]));
        lemma_kill_fold_frame(s, d, x as nat);
        assert(f.alive.contains(d[x].0) || f.raised.contains(d[x].0));
    }
}

// the stop position of a batch kill is unique: the result is a function of (state, batch)   (C20)
//@props C02 C20
pub proof fn lemma_kill_stop_unique(s: AState, d: Seq<Entity>, k1: nat, k2: nat)
    requires s.kill_stops_at(d, k1), s.kill_stops_at(d, k2),
    ensures k1 == k2,
{
    if k1 < k2 {
        assert(s.kill_fold(d, k1).current(d[k1 as int]));
    }
    if k2 < k1 {
        assert(s.kill_fold(d, k2).current(d[k2 as int]));
    }
}

// ---------------------------------------------------------------- trace lemmas
// One step of the allocator's life, as seen through the contracts attached to the real code.
pub enum Step {
    CreateNow,                      // World::create_entity / create_iter / builders   -> Allocator::allocate
    CreateDeferred,                 // Entities::create / create_iter / build_entity / LazyUpdate::create_entity -> allocate_atomic
    KillNow { d: Seq<Entity>, k: nat },   // World::delete_entity / delete_entities / delete_all -> Allocator::kill, stopped at k
    KillDeferred { e: Entity, ok: bool }, // Entities::delete / dropped builder -> kill_atomic
    Merge,                          // World::maintain -> Allocator::merge
}

// relation between consecutive abstract states = the postconditions of the contracted functions
pub open spec fn free_ok(s: AState) -> bool {
    &&& forall|k: int| 0 <= k < s.free.len() ==> ((#[trigger] s.free[k]) as nat) < s.max_id && !s.occ(s.free[k])
    &&& forall|k: int, l: int| 0 <= k < l < s.free.len() ==> s.free[k] != s.free[l]
}
// `exact` = the free list after a batch kill is pinned exactly (C17, C20); otherwise only its
// safety part (entries unoccupied and distinct, i.e. what Allocator::wf states) is used (C01, C02).
pub open spec fn step_ok(pre: AState, st: Step, post: AState, exact: bool) -> bool {
    match st {
        Step::CreateNow => post == pre.create_now(),
        Step::CreateDeferred => post == pre.create_deferred(),
        Step::KillNow { d, k } => {
            &&& forall|j: int| 0 <= j < d.len() ==> pre.legit(#[trigger] d[j])
            &&& pre.kill_stops_at(d, k)
            &&& post.core_eq(pre.killed_core(d, k))
            &&& if exact { post.free == pre.killed_free(d, k) } else { free_ok(post) }
        },
        Step::KillDeferred { e, ok } => {
            &&& pre.legit(e)
            &&& ok == pre.current(e)
            &&& post == (if ok { pre.defer_kill(e) } else { pre })
        },
        Step::Merge => post == pre.merged(),
    }
}

// abstract counterpart of Allocator::wf / wf_complete
pub open spec fn ainv(s: AState) -> bool {
    &&& forall|i: u32| #![trigger s.hwv(i)] s.hwv(i) >= 0
    &&& forall|i: u32| #![trigger s.occ(i)] s.occ(i) ==> (i as nat) < s.max_id && s.hwv(i) >= 1
    &&& forall|i: u32| #![trigger s.hwv(i)] (i as nat) >= s.max_id ==> s.hwv(i) == 0
    &&& forall|i: u32| #![trigger s.killed.contains(i)] s.killed.contains(i) ==> s.occ(i)
    &&& free_ok(s)
    &&& s.max_id < 0x100_0000
}
pub open spec fn acomplete(s: AState) -> bool {
    forall|i: u32| #![trigger s.occ(i)] (i as nat) < s.max_id && !s.occ(i) ==> s.free.contains(i)
}

pub open spec fn initial() -> AState {
    AState { hw: |i: u32| 0int, alive: Set::empty(), raised: Set::empty(), killed: Set::empty(), free: Seq::empty(), max_id: 0 }
}

// a history: states[0] = initial, steps[k] leads from states[k] to states[k+1]
pub open spec fn history(states: Seq<AState>, steps: Seq<Step>, exact: bool) -> bool {
    &&& states.len() == steps.len() + 1
    &&& states[0] == initial()
    &&& forall|k: int| 0 <= k < steps.len() ==> step_ok(#[trigger] states[k], steps[k], states[k + 1], exact)
    &&& forall|k: int| 0 <= k < states.len() ==> (#[trigger] states[k]).max_id < 0x100_0000 - 1
}

pub open spec fn is_create(st: Step) -> bool { st is CreateNow || st is CreateDeferred }

pub proof fn lemma_step_inv_create(pre: AState, now: bool)
    requires ainv(pre), pre.max_id < 0x100_0000 - 1,
    ensures ({
        let post = if now { pre.create_now() } else { pre.create_deferred() };
        let i = pre.next_index();
        &&& ainv(post)
        &&& !pre.occ(i) && post.occ(i) && post.hwv(i) == pre.hwv(i) + 1
        &&& (i as nat) < post.max_id
        &&& forall|j: u32| #![trigger post.hwv(j)] j != i ==> post.hwv(j) == pre.hwv(j)
        &&& forall|j: u32| #![trigger post.occ(j)] j != i ==> post.occ(j) == pre.occ(j)
        &&& forall|j: u32| #![trigger post.alive.contains(j)] j != i ==> post.alive.contains(j) == pre.alive.contains(j)
        &&& forall|j: u32| #![trigger post.raised.contains(j)] j != i ==> post.raised.contains(j) == pre.raised.contains(j)
        &&& post.killed == pre.killed
    }),
{
    let post = if now { pre.create_now() } else { pre.create_deferred() };
    let i = pre.next_index();
    let n = pre.free.len() as int;
    if n > 0 {
        assert(pre.free[n - 1] == i);
        assert((i as nat) < pre.max_id && !pre.occ(i));
        assert(post.free == pre.free.drop_last());
    } else {
        assert(i as nat == pre.max_id);
        assert(!pre.occ(i)) by { if pre.occ(i) { assert((i as nat) < pre.max_id); } }
        assert(pre.hwv(i) == 0);
    }
    assert(post.hwv(i) == pre.hwv(i) + 1);
    assert forall|j: u32| #![trigger post.hwv(j)] j != i implies post.hwv(j) == pre.hwv(j) by {}
    assert forall|j: u32| #![trigger post.hwv(j)] post.hwv(j) >= 0 by { assert(pre.hwv(j) >= 0); assert(pre.hwv(i) >= 0); }
    assert forall|j: u32| #![trigger post.occ(j)] post.occ(j) implies (j as nat) < post.max_id && post.hwv(j) >= 1 by {
        assert(pre.hwv(i) >= 0);
        if j != i { assert(pre.occ(j)); }
    }
    assert forall|j: u32| #![trigger post.hwv(j)] (j as nat) >= post.max_id implies post.hwv(j) == 0 by {
        assert(j != i);
        assert(pre.hwv(j) == 0);
    }
    assert forall|j: u32| #![trigger post.killed.contains(j)] post.killed.contains(j) implies post.occ(j) by {
        assert(pre.killed.contains(j));
        assert(pre.occ(j));
    }
    assert forall|x: int| 0 <= x < post.free.len() implies ((#[trigger] post.free[x]) as nat) < post.max_id && !post.occ(post.free[x]) by {
        assert(post.free[x] == pre.free[x]);
        assert((pre.free[x] as nat) < pre.max_id && !pre.occ(pre.free[x]));
        if n > 0 { assert(pre.free[x] != pre.free[n - 1]); }
    }
    assert forall|x: int, y: int| 0 <= x < y < post.free.len() implies post.free[x] != post.free[y] by {
        assert(post.free[x] == pre.free[x] && post.free[y] == pre.free[y]);
    }
    assert(free_ok(post));
}

pub proof fn lemma_step_inv_kill(pre: AState, d: Seq<Entity>, k: nat, post: AState, exact: bool)
    requires ainv(pre), step_ok(pre, Step::KillNow { d, k }, post, exact),
    ensures
        ainv(post),
        forall|i: u32| #![trigger post.hwv(i)] post.hwv(i) == pre.hwv(i),
        forall|i: u32| #![trigger post.occ(i)] post.occ(i) ==> pre.occ(i),
{
    lemma_kill_fold_frame(pre, d, k);
    lemma_kill_fold_distinct(pre, d, k);
    let f = pre.kill_fold(d, k);
    assert(post.hw == f.hw && f.hw == pre.hw);
    assert forall|i: u32| #![trigger post.hwv(i)] post.hwv(i) == pre.hwv(i) by {}
    assert forall|j: u32| #![trigger post.occ(j)] post.occ(j) implies pre.occ(j) by {
        assert(f.alive.contains(j) || f.raised.contains(j));
    }
    assert forall|j: u32| #![trigger post.hwv(j)] post.hwv(j) >= 0 by { assert(pre.hwv(j) >= 0); }
    assert forall|j: u32| #![trigger post.occ(j)] post.occ(j) implies (j as nat) < post.max_id && post.hwv(j) >= 1 by {
        assert(pre.occ(j));
        assert(post.hwv(j) == pre.hwv(j));
    }
    assert forall|j: u32| #![trigger post.hwv(j)] (j as nat) >= post.max_id implies post.hwv(j) == 0 by { assert(pre.hwv(j) == 0); }
    assert forall|j: u32| #![trigger post.killed.contains(j)] post.killed.contains(j) implies post.occ(j) by {
        assert(f.killed.contains(j));
        assert(pre.killed.contains(j) && !in_prefix(d, k, j));
        assert(pre.occ(j));
        assert(f.alive.contains(j) == pre.alive.contains(j));
        assert(f.raised.contains(j) == pre.raised.contains(j));
    }
    if exact {
        let a = ids(d.subrange(0, k as int));
        assert(post.free == pre.free + a);
        assert forall|x: int| 0 <= x < post.free.len() implies ((#[trigger] post.free[x]) as nat) < post.max_id && !post.occ(post.free[x]) by {
            if x < pre.free.len() {
                assert(post.free[x] == pre.free[x]);
                assert(!pre.occ(pre.free[x]));
                assert(!f.alive.contains(pre.free[x]) && !f.raised.contains(pre.free[x]));
            } else {
                let y = x - pre.free.len();
                assert(post.free[x] == a[y]);
                assert(a[y] == d[y].0);
                assert(in_prefix(d, k, d[y].0));
                assert(!f.alive.contains(d[y].0) && !f.raised.contains(d[y].0));
                assert(pre.occ(d[y].0));
            }
        }
        assert forall|x: int, y: int| 0 <= x < y < post.free.len() implies post.free[x] != post.free[y] by {
            if y < pre.free.len() {
            } else if x < pre.free.len() {
                let yy = y - pre.free.len();
                assert(post.free[y] == a[yy] && a[yy] == d[yy].0);
                assert(pre.occ(d[yy].0));
                assert(!pre.occ(pre.free[x]));
            } else {
                let xx = x - pre.free.len();
                let yy = y - pre.free.len();
                assert(post.free[x] == a[xx] && post.free[y] == a[yy]);
                assert(a[xx] == d[xx].0 && a[yy] == d[yy].0);
            }
        }
    }
    assert(free_ok(post));
}

pub proof fn lemma_step_inv_defer_kill(pre: AState, e: Entity)
    requires ainv(pre), pre.current(e),
    ensures ainv(pre.defer_kill(e)),
{
    let post = pre.defer_kill(e);
    assert forall|j: u32| #![trigger post.hwv(j)] post.hwv(j) >= 0 by { assert(pre.hwv(j) >= 0); }
    assert forall|j: u32| #![trigger post.occ(j)] post.occ(j) implies (j as nat) < post.max_id && post.hwv(j) >= 1 by { assert(pre.occ(j)); }
    assert forall|j: u32| #![trigger post.hwv(j)] (j as nat) >= post.max_id implies post.hwv(j) == 0 by { assert(pre.hwv(j) == 0); }
    assert forall|j: u32| #![trigger post.killed.contains(j)] post.killed.contains(j) implies post.occ(j) by {
        if j != e.0 { assert(pre.killed.contains(j)); assert(pre.occ(j)); } else { assert(pre.occ(e.0)); }
    }
    assert forall|x: int| 0 <= x < post.free.len() implies ((#[trigger] post.free[x]) as nat) < post.max_id && !post.occ(post.free[x]) by {
        assert(!pre.occ(pre.free[x]));
    }
    assert(free_ok(post));
}

pub proof fn lemma_step_inv_merge(pre: AState)
    requires ainv(pre),
    ensures
        ainv(pre.merged()),
        forall|j: u32| #![trigger pre.merged().occ(j)] pre.merged().occ(j) == (pre.occ(j) && !pre.killed.contains(j)),
{
    broadcast use axiom_sorted_seq;
    let post = pre.merged();
    let ks = sorted_seq(pre.killed);
    assert forall|j: u32| #![trigger post.occ(j)] post.occ(j) == (pre.occ(j) && !pre.killed.contains(j)) by {}
    assert forall|j: u32| #![trigger post.hwv(j)] post.hwv(j) >= 0 by { assert(pre.hwv(j) >= 0); }
    assert forall|j: u32| #![trigger post.occ(j)] post.occ(j) implies (j as nat) < post.max_id && post.hwv(j) >= 1 by { assert(pre.occ(j)); }
    assert forall|j: u32| #![trigger post.hwv(j)] (j as nat) >= post.max_id implies post.hwv(j) == 0 by { assert(pre.hwv(j) == 0); }
    assert forall|x: int| 0 <= x < post.free.len() implies ((#[trigger] post.free[x]) as nat) < post.max_id && !post.occ(post.free[x]) by {
        if x < pre.free.len() {
            assert(post.free[x] == pre.free[x]);
            assert(!pre.occ(pre.free[x]));
        } else {
            let y = x - pre.free.len();
            assert(post.free[x] == ks[y]);
            assert(ks.contains(ks[y]));
            assert(pre.killed.contains(ks[y]));
            assert(pre.occ(ks[y]));
        }
    }
    assert forall|x: int, y: int| 0 <= x < y < post.free.len() implies post.free[x] != post.free[y] by {
        if y < pre.free.len() {
            assert(post.free[x] == pre.free[x] && post.free[y] == pre.free[y]);
        } else if x < pre.free.len() {
            let yy = y - pre.free.len();
            assert(post.free[y] == ks[yy]);
            assert(ks.contains(ks[yy]));
            assert(pre.killed.contains(ks[yy]));
            assert(pre.occ(ks[yy]));
            assert(post.free[x] == pre.free[x]);
            assert(!pre.occ(pre.free[x]));
        } else {
            let xx = x - pre.free.len();
            let yy = y - pre.free.len();
            assert(post.free[x] == ks[xx] && post.free[y] == ks[yy]);
        }
    }
    assert(free_ok(post));
}

pub proof fn lemma_step_inv(pre: AState, st: Step, post: AState, exact: bool)
    requires ainv(pre), step_ok(pre, st, post, exact), pre.max_id < 0x100_0000 - 1,
    ensures
        ainv(post),
        // hw is monotone, and moves only at a creation, by exactly one, at the created index
        forall|i: u32| #![trigger post.hwv(i)] post.hwv(i) >= pre.hwv(i),
        is_create(st) ==> !pre.occ(pre.next_index()) && post.occ(pre.next_index())
            && post.hwv(pre.next_index()) == pre.hwv(pre.next_index()) + 1,
        forall|i: u32| #![trigger post.hwv(i)] !(is_create(st) && i == pre.next_index()) ==> post.hwv(i) == pre.hwv(i),
        // an index becomes occupied only by a creation at that index
        forall|i: u32| #![trigger post.occ(i)] post.occ(i) && !pre.occ(i) ==> is_create(st) && i == pre.next_index(),
{
    match st {
        Step::CreateNow => { lemma_step_inv_create(pre, true); },
        Step::CreateDeferred => { lemma_step_inv_create(pre, false); },
        Step::KillNow { d, k } => { lemma_step_inv_kill(pre, d, k, post, exact); },
        Step::KillDeferred { e, ok } => { if ok { lemma_step_inv_defer_kill(pre, e); } },
        Step::Merge => { lemma_step_inv_merge(pre); },
    }
}

//@props C01 C02 C17 C20
pub proof fn lemma_history_inv(states: Seq<AState>, steps: Seq<Step>, exact: bool, n: int)
    requires history(states, steps, exact), 0 <= n < states.len(),
    ensures ainv(states[n]),
    decreases n,
{
    if n > 0 {
        lemma_history_inv(states, steps, exact, n - 1);
        lemma_step_inv(states[n - 1], steps[n - 1], states[n], exact);
    }
}

pub proof fn lemma_hw_monotone(states: Seq<AState>, steps: Seq<Step>, exact: bool, a: int, b: int, i: u32)
    requires history(states, steps, exact), 0 <= a <= b < states.len(),
    ensures states[a].hwv(i) <= states[b].hwv(i),
    decreases b - a,
{
    if a < b {
        lemma_hw_monotone(states, steps, exact, a, b - 1, i);
        lemma_history_inv(states, steps, exact, b - 1);
        lemma_step_inv(states[b - 1], steps[b - 1], states[b], exact);
    }
}

// T1 (C01): two creations in one history never return the same handle,
// and the handle a creation returns is current (alive) right after it.
//@props C01
pub proof fn lemma_unique_handles(states: Seq<AState>, steps: Seq<Step>, exact: bool, a: int, b: int)
    requires history(states, steps, exact), 0 <= a < b < steps.len(), is_create(steps[a]), is_create(steps[b]),
    ensures states[a].created() != states[b].created(),
{
    let i = states[a].next_index();
    lemma_history_inv(states, steps, exact, a);
    lemma_step_inv(states[a], steps[a], states[a + 1], exact);
    lemma_hw_monotone(states, steps, exact, a + 1, b, i);
    // generation returned at a is hw_a(i)+1 = hw_{a+1}(i) <= hw_b(i) < hw_b(i)+1
}

// is this handle current (reported alive) in state s?
pub open spec fn cur(s: AState, h: (u32, int)) -> bool { s.occ(h.0) && s.hwv(h.0) == h.1 }

// T2 (C02): a created handle is current right after its creation; once it stops being current it never is again.
//@props C02
pub proof fn lemma_alive_after_create(states: Seq<AState>, steps: Seq<Step>, exact: bool, a: int)
    requires history(states, steps, exact), 0 <= a < steps.len(), is_create(steps[a]),
    ensures cur(states[a + 1], states[a].created()),
{
    lemma_history_inv(states, steps, exact, a);
    lemma_step_inv(states[a], steps[a], states[a + 1], exact);
}

//@props C02
pub proof fn lemma_dead_stays_dead(states: Seq<AState>, steps: Seq<Step>, exact: bool, h: (u32, int), a: int, b: int)
    requires history(states, steps, exact), 0 <= a <= b < states.len(),
        1 <= h.1 <= states[a].hwv(h.0),       // h was issued before state a
        !cur(states[a], h),
    ensures !cur(states[b], h), h.1 <= states[b].hwv(h.0),
    decreases b - a,
{
    if a < b {
        lemma_dead_stays_dead(states, steps, exact, h, a, b - 1);
        lemma_history_inv(states, steps, exact, b - 1);
        lemma_step_inv(states[b - 1], steps[b - 1], states[b], exact);
        let p = states[b - 1];
        let q = states[b];
        if cur(q, h) {
            if p.occ(h.0) {
                // was occupied with a different generation; hw can only have grown
                assert(p.hwv(h.0) != h.1);
            } else {
                assert(is_create(steps[b - 1]) && h.0 == p.next_index());
                assert(q.hwv(h.0) == p.hwv(h.0) + 1);
            }
        }
    }
}

// a handle stays current until a step that vacates its index
//@props C02
pub proof fn lemma_alive_until_vacated(pre: AState, st: Step, post: AState, exact: bool, h: (u32, int))
    requires ainv(pre), step_ok(pre, st, post, exact), pre.max_id < 0x100_0000 - 1, cur(pre, h), post.occ(h.0),
    ensures cur(post, h),
{
    lemma_step_inv(pre, st, post, exact);
    if is_create(st) && h.0 == pre.next_index() {
        assert(!pre.occ(h.0));
    }
}

// T3 (C17): with a complete free list, a fresh index is taken only when every lower index is occupied,
// hence every index handed out is below the peak number of simultaneously occupied indices.
pub proof fn lemma_step_complete(pre: AState, st: Step, post: AState)
    requires ainv(pre), acomplete(pre), step_ok(pre, st, post, true), pre.max_id < 0x100_0000 - 1,
    ensures acomplete(post),
{
    lemma_step_inv(pre, st, post, true);
    match st {
        Step::CreateNow => {
            let i = pre.next_index();
            assert forall|j: u32| #![trigger post.occ(j)] (j as nat) < post.max_id && !post.occ(j) implies post.free.contains(j) by {
                assert(!pre.occ(j));
                assert(j != i);
                if pre.free.len() > 0 {
                    assert(pre.free.contains(j));
                    let k = choose|k: int| 0 <= k < pre.free.len() && pre.free[k] == j;
                    assert(k != pre.free.len() - 1);
                    assert(post.free[k] == j);
                } else {
                    assert((j as nat) < pre.max_id);
                    assert(pre.free.contains(j));
                }
            }
        },
        Step::CreateDeferred => {
            let i = pre.next_index();
            assert forall|j: u32| #![trigger post.occ(j)] (j as nat) < post.max_id && !post.occ(j) implies post.free.contains(j) by {
                assert(!pre.occ(j));
                assert(j != i);
                if pre.free.len() > 0 {
                    assert(pre.free.contains(j));
                    let k = choose|k: int| 0 <= k < pre.free.len() && pre.free[k] == j;
                    assert(k != pre.free.len() - 1);
                    assert(post.free[k] == j);
                } else {
                    assert((j as nat) < pre.max_id);
                    assert(pre.free.contains(j));
                }
            }
        },
        Step::KillNow { d, k } => {
            lemma_kill_fold_frame(pre, d, k);
            let f = pre.kill_fold(d, k);
            let a = ids(d.subrange(0, k as int));
            assert(post.free == pre.free + a);
            assert forall|j: u32| #![trigger post.occ(j)] (j as nat) < post.max_id && !post.occ(j) implies post.free.contains(j) by {
                assert(post.alive.contains(j) == f.alive.contains(j));
                assert(post.raised.contains(j) == f.raised.contains(j));
                if in_prefix(d, k, j) {
                    let x = choose|x: int| 0 <= x < k && x < d.len() && (#[trigger] d[x]).0 == j;
                    assert(a[x] == d[x].0);
                    assert(post.free[pre.free.len() + x] == j);
                } else {
                    assert(!pre.occ(j));
                    assert(pre.free.contains(j));
                    let x = choose|x: int| 0 <= x < pre.free.len() && pre.free[x] == j;
                    assert(post.free[x] == j);
                }
            }
        },
        Step::KillDeferred { e, ok } => {
            assert forall|j: u32| #![trigger post.occ(j)] (j as nat) < post.max_id && !post.occ(j) implies post.free.contains(j) by {
                assert(!pre.occ(j));
                assert(pre.free.contains(j));
            }
        },
        Step::Merge => {
            broadcast use axiom_sorted_seq;
            let ks = sorted_seq(pre.killed);
            assert forall|j: u32| #![trigger post.occ(j)] (j as nat) < post.max_id && !post.occ(j) implies post.free.contains(j) by {
                if pre.killed.contains(j) {
                    assert(ks.contains(j));
                    let x = choose|x: int| 0 <= x < ks.len() && ks[x] == j;
                    assert(post.free[pre.free.len() + x] == j);
                } else {
                    assert(!pre.occ(j));
                    assert(pre.free.contains(j));
                    let x = choose|x: int| 0 <= x < pre.free.len() && pre.free[x] == j;
                    assert(post.free[x] == j);
                }
            }
        },
    }
}

//@props C17
pub proof fn lemma_history_complete(states: Seq<AState>, steps: Seq<Step>, n: int)
    requires history(states, steps, true), 0 <= n < states.len(),
    ensures ainv(states[n]), acomplete(states[n]),
    decreases n,
{
    lemma_history_inv(states, steps, true, n);
    if n > 0 {
        lemma_history_complete(states, steps, n - 1);
        lemma_step_complete(states[n - 1], steps[n - 1], states[n]);
    }
}

// C17 as stated: a never-used index (== the counter) is taken only when every lower index is occupied
//@props C17
pub proof fn lemma_fresh_index_only_when_full(states: Seq<AState>, steps: Seq<Step>, a: int)
    requires history(states, steps, true), 0 <= a < steps.len(), is_create(steps[a]),
    ensures
        (states[a].next_index() as nat) <= states[a].max_id,
        (states[a].next_index() as nat) == states[a].max_id ==>
            forall|j: u32| (j as nat) < states[a].max_id ==> #[trigger] states[a].occ(j),
        // so the index handed out is smaller than the number of occupied indices after the step
        (states[a].next_index() as nat) < states[a].max_id ==> !states[a].occ(states[a].next_index()),
{
    lemma_history_complete(states, steps, a);
    let s = states[a];
    if s.free.len() > 0 {
        assert(s.free[s.free.len() - 1] == s.next_index());
    } else {
        assert forall|j: u32| (j as nat) < s.max_id implies #[trigger] s.occ(j) by {
            if !s.occ(j) { assert(s.free.contains(j)); }
        }
    }
}

// T4 (C20): every step's successor state and returned handle are functions of (state, step label);
// two histories with equal labels are equal state by state.
//@props C20
pub proof fn lemma_deterministic(s1: Seq<AState>, s2: Seq<AState>, steps: Seq<Step>, n: int)
    requires history(s1, steps, true), history(s2, steps, true), 0 <= n < s1.len(),
    ensures s1[n].core_eq(s2[n]), s1[n].free == s2[n].free,
    decreases n,
{
    if n > 0 {
        lemma_deterministic(s1, s2, steps, n - 1);
        let p1 = s1[n - 1]; let p2 = s2[n - 1];
        assert(p1.hw =~= p2.hw && p1.alive =~= p2.alive && p1.raised =~= p2.raised && p1.killed =~= p2.killed);
        assert(p1 == p2);
        assert(step_ok(p1, steps[n - 1], s1[n], true));
        assert(step_ok(p2, steps[n - 1], s2[n], true));
    }
}
