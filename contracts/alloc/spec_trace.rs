// ---------------------------------------------------------------- trace lemmas
// One step of the allocator's life, as seen through the contracts attached to the real code.
pub enum Step {
    CreateNow,                      // World::create_entity / create_iter / builders   -> Allocator::allocate
    CreateDeferred,                 // Entities::create / create_iter / build_entity / LazyUpdate::create_entity -> allocate_atomic
    KillNow { d: Seq<Entity>, k: nat },   // World::delete_entity / delete_entities / delete_all -> Allocator::kill, stopped at k
    KillDeferred { e: Entity, ok: bool }, // Entities::delete / dropped builder -> kill_atomic
    Merge,                          // World::maintain -> Allocator::merge
}

// relation between consecutive abstract states = the postconditions of the contracted functions
pub open spec fn free_ok(s: AState) -> bool {
    &&& forall|k: int| 0 <= k < s.free.len() ==> ((#[trigger] s.free[k]) as nat) < s.max_id && !s.occ(s.free[k])
    &&& forall|k: int, l: int| 0 <= k < l < s.free.len() ==> s.free[k] != s.free[l]
}
// `exact` = the free list after a batch kill is pinned exactly (C17, C20); otherwise only its
// safety part (entries unoccupied and distinct, i.e. what Allocator::wf states) is used (C01, C02).
#[verifier::opaque]
pub open spec fn step_ok(pre: AState, st: Step, post: AState, exact: bool) -> bool {
    match st {
        Step::CreateNow => post == pre.create_now(),
        Step::CreateDeferred => post == pre.create_deferred(),
        Step::KillNow { d, k } => {
            &&& forall|j: int| 0 <= j < d.len() ==> pre.legit(#[trigger] d[j])
            &&& pre.kill_stops_at(d, k)
            &&& post.core_eq(pre.killed_core(d, k))
            &&& if exact { post.free == pre.killed_free(d, k) } else { free_ok(post) }
        },
        Step::KillDeferred { e, ok } => {
            &&& pre.legit(e)
            &&& ok == pre.current(e)
            &&& post == (if ok { pre.defer_kill(e) } else { pre })
        },
        Step::Merge => post == pre.merged(),
    }
}

// abstract counterpart of Allocator::wf / wf_complete
#[verifier::opaque]
pub open spec fn ainv(s: AState) -> bool {
    &&& forall|i: u32| #![trigger s.hwv(i)] s.hwv(i) >= 0
    &&& forall|i: u32| #![trigger s.occ(i)] s.occ(i) ==> (i as nat) < s.max_id && s.hwv(i) >= 1
    &&& forall|i: u32| #![trigger s.hwv(i)] (i as nat) >= s.max_id ==> s.hwv(i) == 0
    &&& forall|i: u32| #![trigger s.killed.contains(i)] s.killed.contains(i) ==> s.occ(i)
    &&& free_ok(s)
    &&& s.max_id < 0x100_0000
}
pub open spec fn acomplete(s: AState) -> bool {
    forall|i: u32| #![trigger s.occ(i)] (i as nat) < s.max_id && !s.occ(i) ==> s.free.contains(i)
}

pub open spec fn initial() -> AState {
    AState { hw: |i: u32| 0int, alive: Set::empty(), raised: Set::empty(), killed: Set::empty(), free: Seq::empty(), max_id: 0 }
}

// a history: states[0] = initial, steps[k] leads from states[k] to states[k+1]
pub open spec fn history(states: Seq<AState>, steps: Seq<Step>, exact: bool) -> bool {
    &&& states.len() == steps.len() + 1
    &&& states[0] == initial()
    &&& forall|k: int| 0 <= k < steps.len() ==> step_ok(#[trigger] states[k], steps[k], states[k + 1], exact)
    &&& forall|k: int| 0 <= k < states.len() ==> (#[trigger] states[k]).max_id < 0x100_0000 - 1
}

pub open spec fn is_create(st: Step) -> bool { st is CreateNow || st is CreateDeferred }

pub proof fn lemma_step_inv_create(pre: AState, now: bool)
    requires ainv(pre), pre.max_id < 0x100_0000 - 1,
    ensures ({
        let post = if now { pre.create_now() } else { pre.create_deferred() };
        let i = pre.next_index();
        &&& ainv(post)
        &&& !pre.occ(i) && post.occ(i) && post.hwv(i) == pre.hwv(i) + 1
        &&& (i as nat) < post.max_id
        &&& forall|j: u32| #![trigger post.hwv(j)] j != i ==> post.hwv(j) == pre.hwv(j)
        &&& forall|j: u32| #![trigger post.occ(j)] j != i ==> post.occ(j) == pre.occ(j)
        &&& forall|j: u32| #![trigger post.alive.contains(j)] j != i ==> post.alive.contains(j) == pre.alive.contains(j)
        &&& forall|j: u32| #![trigger post.raised.contains(j)] j != i ==> post.raised.contains(j) == pre.raised.contains(j)
        &&& post.killed == pre.killed
    }),
{
    reveal(step_ok); reveal(ainv);
    let post = if now { pre.create_now() } else { pre.create_deferred() };
    let i = pre.next_index();
    let n = pre.free.len() as int;
    if n > 0 {
        assert(pre.free[n - 1] == i);
        assert((i as nat) < pre.max_id && !pre.occ(i));
        assert(post.free == pre.free.drop_last());
    } else {
        assert(i as nat == pre.max_id);
        assert(!pre.occ(i)) by { if pre.occ(i) { assert((i as nat) < pre.max_id); } }
        assert(pre.hwv(i) == 0);
    }
    assert(post.hwv(i) == pre.hwv(i) + 1);
    assert forall|j: u32| #![trigger post.hwv(j)] j != i implies post.hwv(j) == pre.hwv(j) by {}
    assert forall|j: u32| #![trigger post.hwv(j)] post.hwv(j) >= 0 by { assert(pre.hwv(j) >= 0); assert(pre.hwv(i) >= 0); }
    assert forall|j: u32| #![trigger post.occ(j)] post.occ(j) implies (j as nat) < post.max_id && post.hwv(j) >= 1 by {
        assert(pre.hwv(i) >= 0);
        if j != i { assert(pre.occ(j)); }
    }
    assert forall|j: u32| #![trigger post.hwv(j)] (j as nat) >= post.max_id implies post.hwv(j) == 0 by {
        assert(j != i);
        assert(pre.hwv(j) == 0);
    }
    assert forall|j: u32| #![trigger post.killed.contains(j)] post.killed.contains(j) implies post.occ(j) by {
        assert(pre.killed.contains(j));
        assert(pre.occ(j));
    }
    assert forall|x: int| 0 <= x < post.free.len() implies ((#[trigger] post.free[x]) as nat) < post.max_id && !post.occ(post.free[x]) by {
        assert(post.free[x] == pre.free[x]);
        assert((pre.free[x] as nat) < pre.max_id && !pre.occ(pre.free[x]));
        if n > 0 { assert(pre.free[x] != pre.free[n - 1]); }
    }
    assert forall|x: int, y: int| 0 <= x < y < post.free.len() implies post.free[x] != post.free[y] by {
        assert(post.free[x] == pre.free[x] && post.free[y] == pre.free[y]);
    }
    assert(free_ok(post));
}

pub proof fn lemma_step_inv_kill(pre: AState, d: Seq<Entity>, k: nat, post: AState, exact: bool)
    requires ainv(pre), step_ok(pre, Step::KillNow { d, k }, post, exact),
    ensures
        ainv(post),
        forall|i: u32| #![trigger post.hwv(i)] post.hwv(i) == pre.hwv(i),
        forall|i: u32| #![trigger post.occ(i)] post.occ(i) ==> pre.occ(i),
{
    reveal(step_ok); reveal(ainv);
    lemma_kill_fold_frame(pre, d, k);
    lemma_kill_fold_distinct(pre, d, k);
    let f = pre.kill_fold(d, k);
    assert(post.hw == f.hw && f.hw == pre.hw);
    assert forall|i: u32| #![trigger post.hwv(i)] post.hwv(i) == pre.hwv(i) by {}
    assert forall|j: u32| #![trigger post.occ(j)] post.occ(j) implies pre.occ(j) by {
        assert(f.alive.contains(j) || f.raised.contains(j));
    }
    assert forall|j: u32| #![trigger post.hwv(j)] post.hwv(j) >= 0 by { assert(pre.hwv(j) >= 0); }
    assert forall|j: u32| #![trigger post.occ(j)] post.occ(j) implies (j as nat) < post.max_id && post.hwv(j) >= 1 by {
        assert(pre.occ(j));
        assert(post.hwv(j) == pre.hwv(j));
    }
    assert forall|j: u32| #![trigger post.hwv(j)] (j as nat) >= post.max_id implies post.hwv(j) == 0 by { assert(pre.hwv(j) == 0); }
    assert forall|j: u32| #![trigger post.killed.contains(j)] post.killed.contains(j) implies post.occ(j) by {
        assert(f.killed.contains(j));
        assert(pre.killed.contains(j) && !in_prefix(d, k, j));
        assert(pre.occ(j));
        assert(f.alive.contains(j) == pre.alive.contains(j));
        assert(f.raised.contains(j) == pre.raised.contains(j));
    }
    if exact {
        let a = ids(d.subrange(0, k as int));
        assert(post.free == pre.free + a);
        assert forall|x: int| 0 <= x < post.free.len() implies ((#[trigger] post.free[x]) as nat) < post.max_id && !post.occ(post.free[x]) by {
            if x < pre.free.len() {
                assert(post.free[x] == pre.free[x]);
                assert(!pre.occ(pre.free[x]));
                assert(!f.alive.contains(pre.free[x]) && !f.raised.contains(pre.free[x]));
            } else {
                let y = x - pre.free.len();
                assert(post.free[x] == a[y]);
                assert(a[y] == d[y].0);
                assert(in_prefix(d, k, d[y].0));
                assert(!f.alive.contains(d[y].0) && !f.raised.contains(d[y].0));
                assert(pre.occ(d[y].0));
            }
        }
        assert forall|x: int, y: int| 0 <= x < y < post.free.len() implies post.free[x] != post.free[y] by {
            if y < pre.free.len() {
            } else if x < pre.free.len() {
                let yy = y - pre.free.len();
                assert(post.free[y] == a[yy] && a[yy] == d[yy].0);
                assert(pre.occ(d[yy].0));
                assert(!pre.occ(pre.free[x]));
            } else {
                let xx = x - pre.free.len();
                let yy = y - pre.free.len();
                assert(post.free[x] == a[xx] && post.free[y] == a[yy]);
                assert(a[xx] == d[xx].0 && a[yy] == d[yy].0);
            }
        }
    }
    assert(free_ok(post));
}

pub proof fn lemma_step_inv_defer_kill(pre: AState, e: Entity)
    requires ainv(pre), pre.current(e),
    ensures ainv(pre.defer_kill(e)),
{
    reveal(step_ok); reveal(ainv);
    let post = pre.defer_kill(e);
    assert forall|j: u32| #![trigger post.hwv(j)] post.hwv(j) >= 0 by { assert(pre.hwv(j) >= 0); }
    assert forall|j: u32| #![trigger post.occ(j)] post.occ(j) implies (j as nat) < post.max_id && post.hwv(j) >= 1 by { assert(pre.occ(j)); }
    assert forall|j: u32| #![trigger post.hwv(j)] (j as nat) >= post.max_id implies post.hwv(j) == 0 by { assert(pre.hwv(j) == 0); }
    assert forall|j: u32| #![trigger post.killed.contains(j)] post.killed.contains(j) implies post.occ(j) by {
        if j != e.0 { assert(pre.killed.contains(j)); assert(pre.occ(j)); } else { assert(pre.occ(e.0)); }
    }
    assert forall|x: int| 0 <= x < post.free.len() implies ((#[trigger] post.free[x]) as nat) < post.max_id && !post.occ(post.free[x]) by {
        assert(!pre.occ(pre.free[x]));
    }
    assert(free_ok(post));
}

pub proof fn lemma_step_inv_merge(pre: AState)
    requires ainv(pre),
    ensures
        ainv(pre.merged()),
        forall|j: u32| #![trigger pre.merged().occ(j)] pre.merged().occ(j) == (pre.occ(j) && !pre.killed.contains(j)),
{
    reveal(step_ok); reveal(ainv);
    broadcast use axiom_sorted_seq;
    let post = pre.merged();
    let ks = sorted_seq(pre.killed);
    assert forall|j: u32| #![trigger post.occ(j)] post.occ(j) == (pre.occ(j) && !pre.killed.contains(j)) by {}
    assert forall|j: u32| #![trigger post.hwv(j)] post.hwv(j) >= 0 by { assert(pre.hwv(j) >= 0); }
    assert forall|j: u32| #![trigger post.occ(j)] post.occ(j) implies (j as nat) < post.max_id && post.hwv(j) >= 1 by { assert(pre.occ(j)); }
    assert forall|j: u32| #![trigger post.hwv(j)] (j as nat) >= post.max_id implies post.hwv(j) == 0 by { assert(pre.hwv(j) == 0); }
    assert forall|x: int| 0 <= x < post.free.len() implies ((#[trigger] post.free[x]) as nat) < post.max_id && !post.occ(post.free[x]) by {
        if x < pre.free.len() {
            assert(post.free[x] == pre.free[x]);
            assert(!pre.occ(pre.free[x]));
        } else {
            let y = x - pre.free.len();
            assert(post.free[x] == ks[y]);
            assert(ks.contains(ks[y]));
            assert(pre.killed.contains(ks[y]));
            assert(pre.occ(ks[y]));
        }
    }
    assert forall|x: int, y: int| 0 <= x < y < post.free.len() implies post.free[x] != post.free[y] by {
        if y < pre.free.len() {
            assert(post.free[x] == pre.free[x] && post.free[y] == pre.free[y]);
        } else if x < pre.free.len() {
            let yy = y - pre.free.len();
            assert(post.free[y] == ks[yy]);
            assert(ks.contains(ks[yy]));
            assert(pre.killed.contains(ks[yy]));
            assert(pre.occ(ks[yy]));
            assert(post.free[x] == pre.free[x]);
            assert(!pre.occ(pre.free[x]));
        } else {
            let xx = x - pre.free.len();
            let yy = y - pre.free.len();
            assert(post.free[x] == ks[xx] && post.free[y] == ks[yy]);
        }
    }
    assert(free_ok(post));
}

pub proof fn lemma_step_inv(pre: AState, st: Step, post: AState, exact: bool)
    requires ainv(pre), step_ok(pre, st, post, exact), pre.max_id < 0x100_0000 - 1,
    ensures
        ainv(post),
        // hw is monotone, and moves only at a creation, by exactly one, at the created index
        forall|i: u32| #![trigger post.hwv(i)] post.hwv(i) >= pre.hwv(i),
        is_create(st) ==> !pre.occ(pre.next_index()) && post.occ(pre.next_index())
            && post.hwv(pre.next_index()) == pre.hwv(pre.next_index()) + 1,
        forall|i: u32| #![trigger post.hwv(i)] !(is_create(st) && i == pre.next_index()) ==> post.hwv(i) == pre.hwv(i),
        // an index becomes occupied only by a creation at that index
        forall|i: u32| #![trigger post.occ(i)] post.occ(i) && !pre.occ(i) ==> is_create(st) && i == pre.next_index(),
{
    reveal(step_ok); reveal(ainv);
    match st {
        Step::CreateNow => { lemma_step_inv_create(pre, true); },
        Step::CreateDeferred => { lemma_step_inv_create(pre, false); },
        Step::KillNow { d, k } => { lemma_step_inv_kill(pre, d, k, post, exact); },
        Step::KillDeferred { e, ok } => { if ok { lemma_step_inv_defer_kill(pre, e); } },
        Step::Merge => { lemma_step_inv_merge(pre); },
    }
}

//@props C01 C02 C17 C20
pub proof fn lemma_history_inv(states: Seq<AState>, steps: Seq<Step>, exact: bool, n: int)
    requires history(states, steps, exact), 0 <= n < states.len(),
    ensures ainv(states[n]),
    decreases n,
{
    if n > 0 {
        lemma_history_inv(states, steps, exact, n - 1);
        lemma_step_inv(states[n - 1], steps[n - 1], states[n], exact);
    } else {
        reveal(ainv);
    }
}

pub proof fn lemma_hw_monotone(states: Seq<AState>, steps: Seq<Step>, exact: bool, a: int, b: int, i: u32)
    requires history(states, steps, exact), 0 <= a <= b < states.len(),
    ensures states[a].hwv(i) <= states[b].hwv(i),
    decreases b - a,
{
    if a < b {
        lemma_hw_monotone(states, steps, exact, a, b - 1, i);
        lemma_history_inv(states, steps, exact, b - 1);
        lemma_step_inv(states[b - 1], steps[b - 1], states[b], exact);
    }
}

// T1 (C01): two creations in one history never return the same handle,
// and the handle a creation returns is current (alive) right after it.
//@props C01
pub proof fn lemma_unique_handles(states: Seq<AState>, steps: Seq<Step>, exact: bool, a: int, b: int)
    requires history(states, steps, exact), 0 <= a < b < steps.len(), is_create(steps[a]), is_create(steps[b]),
    ensures states[a].created() != states[b].created(),
{
    let i = states[a].next_index();
    lemma_history_inv(states, steps, exact, a);
    lemma_step_inv(states[a], steps[a], states[a + 1], exact);
    lemma_hw_monotone(states, steps, exact, a + 1, b, i);
    // generation returned at a is hw_a(i)+1 = hw_{a+1}(i) <= hw_b(i) < hw_b(i)+1
}

// is this handle current (reported alive) in state s?
pub open spec fn cur(s: AState, h: (u32, int)) -> bool { s.occ(h.0) && s.hwv(h.0) == h.1 }

// T2 (C02): a created handle is current right after its creation; once it stops being current it never is again.
//@props C02
pub proof fn lemma_alive_after_create(states: Seq<AState>, steps: Seq<Step>, exact: bool, a: int)
    requires history(states, steps, exact), 0 <= a < steps.len(), is_create(steps[a]),
    ensures cur(states[a + 1], states[a].created()),
{
    lemma_history_inv(states, steps, exact, a);
    lemma_step_inv(states[a], steps[a], states[a + 1], exact);
}

//@props C02
pub proof fn lemma_dead_stays_dead(states: Seq<AState>, steps: Seq<Step>, exact: bool, h: (u32, int), a: int, b: int)
    requires history(states, steps, exact), 0 <= a <= b < states.len(),
        1 <= h.1 <= states[a].hwv(h.0),       // h was issued before state a
        !cur(states[a], h),
    ensures !cur(states[b], h), h.1 <= states[b].hwv(h.0),
    decreases b - a,
{
    if a < b {
        lemma_dead_stays_dead(states, steps, exact, h, a, b - 1);
        lemma_history_inv(states, steps, exact, b - 1);
        lemma_step_inv(states[b - 1], steps[b - 1], states[b], exact);
        let p = states[b - 1];
        let q = states[b];
        if cur(q, h) {
            if p.occ(h.0) {
                // was occupied with a different generation; hw can only have grown
                assert(p.hwv(h.0) != h.1);
            } else {
                assert(is_create(steps[b - 1]) && h.0 == p.next_index());
                assert(q.hwv(h.0) == p.hwv(h.0) + 1);
            }
        }
    }
}

// a handle stays current until a step that vacates its index
//@props C02
pub proof fn lemma_alive_until_vacated(pre: AState, st: Step, post: AState, exact: bool, h: (u32, int))
    requires ainv(pre), step_ok(pre, st, post, exact), pre.max_id < 0x100_0000 - 1, cur(pre, h), post.occ(h.0),
    ensures cur(post, h),
{
    reveal(step_ok); reveal(ainv);
    lemma_step_inv(pre, st, post, exact);
    if is_create(st) && h.0 == pre.next_index() {
        assert(!pre.occ(h.0));
    }
}

// T3 (C17): with a complete free list, a fresh index is taken only when every lower index is occupied,
// hence every index handed out is below the peak number of simultaneously occupied indices.
pub proof fn lemma_step_complete(pre: AState, st: Step, post: AState)
    requires ainv(pre), acomplete(pre), step_ok(pre, st, post, true), pre.max_id < 0x100_0000 - 1,
    ensures acomplete(post),
{
    reveal(step_ok); reveal(ainv);
    lemma_step_inv(pre, st, post, true);
    match st {
        Step::CreateNow => {
            let i = pre.next_index();
            assert forall|j: u32| #![trigger post.occ(j)] (j as nat) < post.max_id && !post.occ(j) implies post.free.contains(j) by {
                assert(!pre.occ(j));
                assert(j != i);
                if pre.free.len() > 0 {
                    assert(pre.free.contains(j));
                    let k = choose|k: int| 0 <= k < pre.free.len() && pre.free[k] == j;
                    assert(k != pre.free.len() - 1);
                    assert(post.free[k] == j);
                } else {
                    assert((j as nat) < pre.max_id);
                    assert(pre.free.contains(j));
                }
            }
        },
        Step::CreateDeferred => {
            let i = pre.next_index();
            assert forall|j: u32| #![trigger post.occ(j)] (j as nat) < post.max_id && !post.occ(j) implies post.free.contains(j) by {
                assert(!pre.occ(j));
                assert(j != i);
                if pre.free.len() > 0 {
                    assert(pre.free.contains(j));
                    let k = choose|k: int| 0 <= k < pre.free.len() && pre.free[k] == j;
                    assert(k != pre.free.len() - 1);
                    assert(post.free[k] == j);
                } else {
                    assert((j as nat) < pre.max_id);
                    assert(pre.free.contains(j));
                }
            }
        },
        Step::KillNow { d, k } => {
            lemma_kill_fold_frame(pre, d, k);
            let f = pre.kill_fold(d, k);
            let a = ids(d.subrange(0, k as int));
            assert(post.free == pre.free + a);
            assert forall|j: u32| #![trigger post.occ(j)] (j as nat) < post.max_id && !post.occ(j) implies post.free.contains(j) by {
                assert(post.alive.contains(j) == f.alive.contains(j));
                assert(post.raised.contains(j) == f.raised.contains(j));
                if in_prefix(d, k, j) {
                    let x = choose|x: int| 0 <= x < k && x < d.len() && (#[trigger] d[x]).0 == j;
                    assert(a[x] == d[x].0);
                    assert(post.free[pre.free.len() + x] == j);
                } else {
                    assert(!pre.occ(j));
                    assert(pre.free.contains(j));
                    let x = choose|x: int| 0 <= x < pre.free.len() && pre.free[x] == j;
                    assert(post.free[x] == j);
                }
            }
        },
        Step::KillDeferred { e, ok } => {
            assert forall|j: u32| #![trigger post.occ(j)] (j as nat) < post.max_id && !post.occ(j) implies post.free.contains(j) by {
                assert(!pre.occ(j));
                assert(pre.free.contains(j));
            }
        },
        Step::Merge => {
            broadcast use axiom_sorted_seq;
            let ks = sorted_seq(pre.killed);
            assert forall|j: u32| #![trigger post.occ(j)] (j as nat) < post.max_id && !post.occ(j) implies post.free.contains(j) by {
                if pre.killed.contains(j) {
                    assert(ks.contains(j));
                    let x = choose|x: int| 0 <= x < ks.len() && ks[x] == j;
                    assert(post.free[pre.free.len() + x] == j);
                } else {
                    assert(!pre.occ(j));
                    assert(pre.free.contains(j));
                    let x = choose|x: int| 0 <= x < pre.free.len() && pre.free[x] == j;
                    assert(post.free[x] == j);
                }
            }
        },
    }
}

//@props C17
pub proof fn lemma_history_complete(states: Seq<AState>, steps: Seq<Step>, n: int)
    requires history(states, steps, true), 0 <= n < states.len(),
    ensures ainv(states[n]), acomplete(states[n]),
    decreases n,
{
    lemma_history_inv(states, steps, true, n);
    if n > 0 {
        lemma_history_complete(states, steps, n - 1);
        lemma_step_complete(states[n - 1], steps[n - 1], states[n]);
    }
}

// C17 as stated: a never-used index (== the counter) is taken only when every lower index is occupied
//@props C17
pub proof fn lemma_fresh_index_only_when_full(states: Seq<AState>, steps: Seq<Step>, a: int)
    requires history(states, steps, true), 0 <= a < steps.len(), is_create(steps[a]),
    ensures
        (states[a].next_index() as nat) <= states[a].max_id,
        (states[a].next_index() as nat) == states[a].max_id ==>
            forall|j: u32| (j as nat) < states[a].max_id ==> #[trigger] states[a].occ(j),
        // so the index handed out is smaller than the number of occupied indices after the step
        (states[a].next_index() as nat) < states[a].max_id ==> !states[a].occ(states[a].next_index()),
{
    reveal(step_ok); reveal(ainv);
    lemma_history_complete(states, steps, a);
    let s = states[a];
    if s.free.len() > 0 {
        assert(s.free[s.free.len() - 1] == s.next_index());
    } else {
        assert forall|j: u32| (j as nat) < s.max_id implies #[trigger] s.occ(j) by {
            if !s.occ(j) { assert(s.free.contains(j)); }
        }
    }
}

// T4 (C20): every step's successor state and returned handle are functions of (state, step label);
// two histories with equal labels are equal state by state.
//@props C20
pub proof fn lemma_deterministic(s1: Seq<AState>, s2: Seq<AState>, steps: Seq<Step>, n: int)
    requires history(s1, steps, true), history(s2, steps, true), 0 <= n < s1.len(),
    ensures s1[n].core_eq(s2[n]), s1[n].free == s2[n].free,
    decreases n,
{
    reveal(step_ok); reveal(ainv);
    if n > 0 {
        lemma_deterministic(s1, s2, steps, n - 1);
        let p1 = s1[n - 1]; let p2 = s2[n - 1];
        assert(p1.hw =~= p2.hw && p1.alive =~= p2.alive && p1.raised =~= p2.raised && p1.killed =~= p2.killed);
        assert(p1 == p2);
        assert(step_ok(p1, steps[n - 1], s1[n], true));
        assert(step_ok(p2, steps[n - 1], s2[n], true));
    }
}
