# Unit `lazy`: the actions queued by LazyUpdate::{insert, insert_all, remove} and LazyBuilder::with (C09 reduced, C03)
import importlib.util, os
from vx.unit import Unit, E

_here = os.path.dirname(os.path.abspath(__file__))
_s = importlib.util.spec_from_file_location('unit_storage_base', os.path.join(_here, '..', 'storage', 'unit.py'))
_storage = importlib.util.module_from_spec(_s)
_s.loader.exec_module(_storage)

L = 'src/world/lazy.rs'
# N23 (lambda lifting): `fn f(&self, ARGS) { self.exec(move |world| BODY); }` -> `fn f_action(world: &mut World, ARGS) BODY`:
# the queued closure as a function of the world it is run on and of the values it captures by move
LIFT = [('N23', r'self\.exec\(move \|world\| \{', '{'), ('N23', r'\}\);(\s*)\}\s*$', r'}\1}'),
        ('N10', r'SystemData::fetch\(world\)', 'fetch_write_storage(world)')]
PRE = [E('wf', 'old(world).comp::<C>().wf()'), E('ents', 'ent_ok(&old(world).ents())')]


def build():
    u = _storage.build()
    u.name = 'lazy'
    u.prelude = u.prelude + [('prelude/lazy_world.rs', 'private')]
    u.spec = u.spec + ['lazy/spec.rs']
    u.files = u.files + [L]
    IH = ''
    u.fn(L, ['impl LazyUpdate', 'parallel_feature!', 'fn insert'], props='C09 C03', free='lazy_insert_action', key='LazyUpdate::insert(action)',
         rules=[('N23', r'fn insert<C>\(&self,', 'fn insert<C>(world: &mut World,')] + LIFT,
         requires=PRE,
         ensures=[E('target', 'final(world).comp::<C>()@ == lazy_put(old(world).comp::<C>()@, &old(world).ents(), e, c)'),
                  E('wf', 'final(world).comp::<C>().wf() && final(world).ents() == old(world).ents()')])
    u.fn(L, ['impl LazyUpdate', 'parallel_feature!', 'fn remove'], props='C09 C03', free='lazy_remove_action', key='LazyUpdate::remove(action)',
         rules=[('N23', r'fn remove<C>\(&self,', 'fn remove<C>(world: &mut World,')] + LIFT,
         requires=PRE,
         ensures=[E('target', 'final(world).comp::<C>()@ == (if live(&old(world).ents(), e) { old(world).comp::<C>()@.remove(e.0) } else { old(world).comp::<C>()@ })'),
                  E('wf', 'final(world).comp::<C>().wf() && final(world).ents() == old(world).ents()')])
    u.fn(L, ['impl LazyUpdate', 'parallel_feature!', 'fn insert_all'], props='C09 C03', free='lazy_insert_all_action', key='LazyUpdate::insert_all(action)',
         rules=[('N23', r'fn insert_all<C, I>\(&self, iter: I\)', 'fn insert_all<C>(world: &mut World, iter: Vec<(Entity, C)>)'),
                ('N8', r"I: IntoIterator<Item = \(Entity, C\)> \+ 'static,", '')] + LIFT,
         requires=PRE,
         ensures=[E('targets', 'final(world).comp::<C>()@ == lazy_put_all(old(world).comp::<C>()@, &old(world).ents(), iter@)'),
                  E('wf', 'final(world).comp::<C>().wf() && final(world).ents() == old(world).ents()')],
         loops={0: dict(iter_name='it', invariant=[
             E('wf', 'storage.data.wf() && ent_ok(storage.entities) && *storage.entities == old(world).ents()'),
             E('fold', 'storage.data@ == lazy_put_all(old(world).comp::<C>()@, &old(world).ents(), iter@.subrange(0, it.index@ as int))'),
             E('seq', 'it.seq() == iter@'),
             E('same_ref', '*final(storage.data) == *final(s0__.data)')])},
         hints=[('before_loop', 0, 'let ghost s0__ = storage;'),
                ('before', 'if storage.insert(e, c).is_err()', 'proof { let k = it.index@ as int; assert(iter@.subrange(0, k + 1) =~= iter@.subrange(0, k).push(iter@[k])); lemma_put_all_push(old(world).comp::<C>()@, &old(world).ents(), iter@.subrange(0, k), iter@[k].0, iter@[k].1); }'),
                ('after_loop', 0, 'proof { assert(iter@.subrange(0, iter@.len() as int) =~= iter@); }')])
    u.fn(L, ["impl<'a> Builder for LazyBuilder<'a>", 'parallel_feature!', 'fn with'], props='C09 C03', free='lazy_builder_with_action', key='LazyBuilder::with(action)',
         rules=[('N23', r'fn with<C>\(self, component: C\) -> Self', 'fn with<C>(world: &mut World, entity: Entity, component: C)'),
                ('N23', r'let entity = self\.entity;', ''), ('N23', r'self\.lazy\.exec\(move \|world\| \{', '{'),
                ('N23', r'\}\);\s*self\s*\}\s*$', '} }'), ('N10', r'SystemData::fetch\(world\)', 'fetch_write_storage(world)')],
         requires=PRE,
         ensures=[E('target', 'final(world).comp::<C>()@ == lazy_put(old(world).comp::<C>()@, &old(world).ents(), entity, component)'),
                  E('wf', 'final(world).comp::<C>().wf() && final(world).ents() == old(world).ents()')])
    # ---- the eager builders' `with` (src/world/mod.rs, src/world/entity.rs): the component goes to the builder's OWN entity.
    # N23-style lifting: the builder is {entity, world, built}; `with` hands it back unchanged, so the function is checked as a function of
    # (world, entity, c) — `self.world` -> `world`, `self.entity` -> `entity`, the trailing `self` dropped (a by-value `self` holding the
    # N3 `&mut World` could not be reborrowed without `mut self`, which Verus lacks)
    M = 'src/world/mod.rs'
    u.files = u.files + [M]
    u.fn(M, ["impl<'a> Builder for EntityBuilder<'a>", 'fn with'], props='C01 C03 C04', free='entity_builder_with', key='EntityBuilder::with(lifted)',
         rules=[('N23', r'fn with<T: Component>\(self, c: T\) -> Self', 'fn with<T: Component>(world: &mut World, entity: Entity, c: T)'),
                ('N10', r'SystemData::fetch\(self\.world\)', 'fetch_write_storage(world)'), ('N23', r'self\.entity', 'entity'),
                ('N23', r'\}\s*self\s*\}\s*$', '} }')],
         requires=[E('wf', 'old(world).comp::<T>().wf()'), E('ents', 'ent_ok(&old(world).ents())'),
                   E('own', 'live(&old(world).ents(), entity)')],
         ensures=[E('target', 'final(world).comp::<T>()@ == old(world).comp::<T>()@.insert(entity.0, c)'),
                  E('wf', 'final(world).comp::<T>().wf() && final(world).ents() == old(world).ents()')])
    F = 'src/world/entity.rs'
    u.fn(F, ["impl<'a> EntityResBuilder<'a>", 'fn with'], props='C01 C03 C04', free='entity_res_builder_with', key='EntityResBuilder::with(lifted)',
         rules=[('N23', r'fn with<T: Component>\(self, c: T, storage: &mut WriteStorage<T>\) -> Self',
                 "fn with<'e, 'd, T: Component>(entity: Entity, c: T, storage: &mut Storage<'e, T, &'d mut MaskedStorage<T>>)"),
                ('N23', r'self\.entity', 'entity'), ('N23', r';\s*self\s*\}\s*$', '; }')],
         requires=[E('wf', 'old(storage).data.wf()'), E('ents', 'ent_ok(old(storage).entities)'), E('own', 'live(old(storage).entities, entity)')],
         ensures=[E('target', 'final(storage).data@ == old(storage).data@.insert(entity.0, c)'),
                  E('wf', 'final(storage).data.wf()')])
    return u
