// Queued lazy actions (src/world/lazy.rs): the closure handed to `exec` is verified as a function of the world and the values it
// captures (N23, lambda lifting). What an action does to its target: applied if the target is alive when the action runs,
// skipped — touching nothing — if it is dead.
pub open spec fn lazy_put<C: Component>(m: Map<Index, C>, ents: &EntitiesRes, e: Entity, c: C) -> Map<Index, C> {
    if live(ents, e) { m.insert(e.0, c) } else { m }
}
pub open spec fn lazy_put_all<C: Component>(m: Map<Index, C>, ents: &EntitiesRes, pairs: Seq<(Entity, C)>) -> Map<Index, C>
    decreases pairs.len()
{
    if pairs.len() == 0 { m } else { lazy_put_all(lazy_put(m, ents, pairs[0].0, pairs[0].1), ents, pairs.drop_first()) }
}
pub proof fn lemma_put_all_push<C: Component>(m: Map<Index, C>, ents: &EntitiesRes, pairs: Seq<(Entity, C)>, e: Entity, c: C)
    ensures lazy_put_all(m, ents, pairs.push((e, c))) == lazy_put(lazy_put_all(m, ents, pairs), ents, e, c),
    decreases pairs.len()
{
    let ext = pairs.push((e, c));
    if pairs.len() == 0 {
        assert(ext.drop_first() =~= Seq::<(Entity, C)>::empty());
        assert(ext[0] == (e, c));
        assert(lazy_put_all(lazy_put(m, ents, e, c), ents, ext.drop_first()) == lazy_put(m, ents, e, c));
    } else {
        assert(ext[0] == pairs[0]);
        assert(ext.drop_first() =~= pairs.drop_first().push((e, c)));
        lemma_put_all_push(lazy_put(m, ents, pairs[0].0, pairs[0].1), ents, pairs.drop_first(), e, c);
    }
}
