// Declared versus actual borrows of the storage system-data types (src/storage/data.rs) and registration paths (C11, C05d).
pub open spec fn ids_of(v: Seq<ResourceId>) -> Seq<int> { v.map_values(|r: ResourceId| r@) }
