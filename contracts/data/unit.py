# Unit `data`: ReadStorage / WriteStorage system data (C11 reduced, C05 registration paths)
from vx.unit import Unit, E

DT = 'src/storage/data.rs'
SM = 'src/storage/mod.rs'
WX = 'src/world/world_ext.rs'
# N10: turbofish-specialised shred accessors are replaced by the stub's monomorphic accessors of the same resources
N10 = [('N10', r'res\.entry::<MaskedStorage<T>>\(\)\s*\.or_insert_with\(', 'res.entry_or_insert_with::<MaskedStorage<T>, _>('),
       ('N10', r'res\.fetch_mut::<MetaTable<dyn AnyStorage>>\(\)\s*\.register::<MaskedStorage<T>>\(\)', 'res.meta_table_register::<MaskedStorage<T>>()'),
       ('N10', r'self\.entry\(\)\s*\.or_insert_with\(', 'self.entry_or_insert_with::<MaskedStorage<T>, _>('),
       ('N10', r'self\.fetch_mut::<MetaTable<dyn AnyStorage>>\(\)\s*\.register::<MaskedStorage<T>>\(\)', 'self.meta_table_register::<MaskedStorage<T>>()'),
       # the same two calls with the fetched table bound to a local first
       ('N10', r'let (?:mut )?(\w+) = (self|res)\.fetch_mut::<MetaTable<dyn AnyStorage>>\(\);\s*\1\.register::<MaskedStorage<T>>\(\)', r'\2.meta_table_register::<MaskedStorage<T>>()')]


def build():
    u = Unit('data', prelude=[('prelude/shred_data.rs', 'private')], spec=['data/spec.rs'], files=[DT, WX])
    u.struct(SM, ['struct Storage'])
    u.struct(DT, ['type ReadStorage'])
    u.struct(DT, ['type WriteStorage'])
    u.fn(SM, ["impl<'e, T, D> Storage<'e, T, D>", 'fn new'], ret='r', props='C11', key='Storage::new', nth=0,
         ensures=[E('fields', 'r.data == data && r.entities == entities')])
    SETUP_ENS = [E('exists', 'final(res).has(rid::<MaskedStorage<T>>())', 'C05'),
                 E('listed', 'final(res).listed(rid::<MaskedStorage<T>>())', 'C05'),
                 E('keeps', 'forall|x: int| #![trigger final(res).listed(x)] old(res).listed(x) ==> final(res).listed(x)', 'C05')]
    for (alias, kind) in [('ReadStorage', 'r'), ('WriteStorage', 'w')]:
        H = "impl<'a, T> SystemData<'a> for %s<'a, T>" % alias
        IH = "impl<'a, T> Storage<'a, T, %s<'a, MaskedStorage<T>>> where T: Component," % ('Fetch' if kind == 'r' else 'FetchMut')
        u.fn(DT, [H, 'fn setup'], props='C05 C11', impl_header=IH, key='%s::setup' % alias, rules=N10, ensures=SETUP_ENS)
        u.fn(DT, [H, 'fn fetch'], ret='r', props='C11', impl_header=IH, key='%s::fetch' % alias,
             requires=[E('present', 'res.has(rid::<EntitiesRes>()) && res.has(rid::<MaskedStorage<T>>())')],
             ensures=[E('borrows', 'r.entities.borrowed() == rid::<EntitiesRes>() && r.data.borrowed() == rid::<MaskedStorage<T>>()')])
        if kind == 'r':
            u.fn(DT, [H, 'fn reads'], ret='r', props='C11', impl_header=IH, key='%s::reads' % alias,
                 ensures=[E('declared', 'ids_of(r@) =~= seq![rid::<EntitiesRes>(), rid::<MaskedStorage<T>>()]')])
            u.fn(DT, [H, 'fn writes'], ret='r', props='C11', impl_header=IH, key='%s::writes' % alias,
                 ensures=[E('declared', 'r@.len() == 0')])
        else:
            u.fn(DT, [H, 'fn reads'], ret='r', props='C11', impl_header=IH, key='%s::reads' % alias,
                 ensures=[E('declared', 'ids_of(r@) =~= seq![rid::<EntitiesRes>()]')])
            u.fn(DT, [H, 'fn writes'], ret='r', props='C11', impl_header=IH, key='%s::writes' % alias,
                 ensures=[E('declared', 'ids_of(r@) =~= seq![rid::<MaskedStorage<T>>()]')])
    # WorldExt::register_with_storage / register (src/world/world_ext.rs): the explicit registration path
    WH = 'impl WorldExt for World'
    u.fn(WX, [WH, 'fn register_with_storage'], props='C05', impl_header='impl World', key='World::register_with_storage', rules=N10,
         requires=[E('callable', 'storage.requires(())')],
         ensures=[E('exists', 'final(self).has(rid::<MaskedStorage<T>>())'), E('listed', 'final(self).listed(rid::<MaskedStorage<T>>())'),
                  E('keeps', 'forall|x: int| #![trigger final(self).listed(x)] old(self).listed(x) ==> final(self).listed(x)')])
    return u
