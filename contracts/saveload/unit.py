# Unit `saveload`: the macro-generated per-entity drivers of loading and saving (src/saveload/de.rs `deserialize_components!`,
# src/saveload/ser.rs `serialize_components!`), arities 1-3, taken from rustc's own expansion (features parallel + serde) — C15 (load path)
from vx.unit import Unit, E

X = '@expanded'
LET = ['SM', 'SO', 'SP']      # the macro's own storage parameter names for the last three arities (.. SN, SM, SO, SP)
CLET = ['CM', 'CO', 'CP']


def build():
    u = Unit('saveload', prelude=[('prelude/saveload.rs', 'private')], spec=['saveload/spec.rs'], files=['src/saveload/de.rs', 'src/saveload/ser.rs'],
             features={'parallel', 'serde'})
    for n in (1, 2, 3):
        ss = LET[3 - n:]
        cs = CLET[3 - n:]
        tup = '(%s%s)' % (', '.join(ss), ',' if n == 1 else '')
        # ---------------- deserialize_entity: N12 (free function, Self = the tuple of storage handles), N17 (`let (ref mut A, ..) = *self;` ->
        # field borrows), N26 (`mut ids: F` -> rebinding), N1 (`E: Display` bound dropped)
        gen = 'E, M, ' + ', '.join(ss) + ', F'
        data = '(%s%s)' % (', '.join('Option<<<%s as GenericWriteStorage>::Component as ConvertSaveload<M>>::Data>' % s for s in ss), ',' if n == 1 else '')
        wh = ' '.join('%s: GenericWriteStorage, <%s as GenericWriteStorage>::Component: ConvertSaveload<M>, E: From<<<%s as GenericWriteStorage>::Component as ConvertSaveload<M>>::Error>,' % (s, s, s) for s in ss)
        hdr = 'fn deserialize_entity<%s>(self_: &mut %s, entity: Entity, components: %s, ids: F) -> Result<(), E> where %s F: FnMut(M) -> Option<Entity> { let mut ids = ids;' % (gen, tup, data, wh)
        rules = [('N12', r'fn deserialize_entity<F>\(&mut self, entity: Entity,\s*components: Self::Data, mut ids: F\) -> Result<\(\), E> where\s*F: FnMut\(M\) -> Option<Entity> \{', hdr),
                 ('N17', r'let \(' + ', '.join('ref mut %s' % s for s in ss) + (',' if n == 1 else '') + r'\) = \*self;',
                  ' '.join('let %s = &mut self_.%d;' % (s, k) for k, s in enumerate(ss)))]
        ens = []
        for k in range(n):
            S0, S1, C = 'old(self_).%d' % k, 'final(self_).%d' % k, 'components.%d' % k
            ens.append(E('present%d' % k, 'r is Ok && %s.glive(entity) && %s is Some ==> %s.gmap().dom().contains(entity.0) && %s.gmap().remove(entity.0) == %s.gmap().remove(entity.0)' % (S0, C, S1, S1, S0)))
            ens.append(E('absent%d' % k, 'r is Ok && %s.glive(entity) && %s is None ==> %s.gmap() == %s.gmap().remove(entity.0)' % (S0, C, S1, S0)))
            ens.append(E('dead%d' % k, 'r is Ok && !%s.glive(entity) ==> %s.gmap() == %s.gmap()' % (S0, S1, S0)))
        u.fn(X, ['mod saveload', 'mod de', "impl<'b, E, M, %s> DeserializeComponents<E, M> for %s" % (', '.join(ss), tup), 'fn deserialize_entity'],
             ret='r', props='C15 C14', free='deserialize_entity_%d' % n, key='DeserializeComponents(arity %d)::deserialize_entity' % n, rules=rules, ensures=ens)
        # ---------------- serialize_entity: N12, N17 (`let (ref A, ..) = *self;`), N26, N4 (`X.map(|c| B.map(Some)).unwrap_or(Ok(None))` ->
        # `match X { Some(c) => match B { Ok(d) => Ok(Some(d)), Err(e) => Err(e) }, None => Ok(None) }`: the closure captures `&mut ids`)
        gen = 'E, M, ' + ', '.join(cs) + ', ' + ', '.join(ss) + ', F'
        data = '(%s%s)' % (', '.join('Option<%s::Data>' % c for c in cs), ',' if n == 1 else '')
        wh = ' '.join('%s: GenericReadStorage<Component = %s>, %s: ConvertSaveload<M>, E: From<<%s as ConvertSaveload<M>>::Error>,' % (s, c, c, c) for s, c in zip(ss, cs))
        hdr = 'fn serialize_entity<%s>(self_: &%s, entity: Entity, ids: F) -> Result<%s, E> where %s F: FnMut(Entity) -> Option<M> { let mut ids = ids;' % (gen, tup, data, wh)
        rules = [('N12', r'fn serialize_entity<F>\(&self, entity: Entity, mut ids: F\)\s*-> Result<Self::Data, E> where F: FnMut\(Entity\) -> Option<M> \{', hdr),
                 ('N17', r'let \(' + ', '.join('ref %s' % c for c in cs) + (',' if n == 1 else '') + r'\) = \*self;',
                  ' '.join('let %s = &self_.%d;' % (c, k) for k, c in enumerate(cs))),
                 ('N4', r'(\w+)\.get\(entity\)\.map\(\|c\|\s*c\.convert_into\(&mut ids\)\.map\(Some\)\)\.unwrap_or\(Ok\(None\)\)\?',
                  r'(match \1.get(entity) { Some(c) => match c.convert_into(&mut ids) { Ok(d) => Ok(Some(d)), Err(e) => Err(e) }, None => Ok(None) })?')]
        ens = [E('member%d' % k, 'r is Ok ==> (r->Ok_0.%d is Some <==> (self_.%d.glive(entity) && self_.%d.gmap().dom().contains(entity.0)))' % (k, k, k)) for k in range(n)]
        u.fn(X, ['mod saveload', 'mod ser', "impl<'a, E, M, %s, %s> SerializeComponents<E, M> for %s" % (', '.join(cs), ', '.join(ss), tup), 'fn serialize_entity'],
             ret='r', props='C14', free='serialize_entity_%d' % n, key='SerializeComponents(arity %d)::serialize_entity' % n, rules=rules, ensures=ens)
    return u
