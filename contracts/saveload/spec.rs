// C15 (load path) / membership half of a save-load round trip: per entity and per component type,
//   serialize_entity:   the record has `Some` for a type  <=>  the (live) entity has that component;
//   deserialize_entity: `Some` => the entity has the component afterwards, `None` => it has not; every other entity keeps what it had.
// The conversions themselves (ConvertSaveload, C18), the serde drivers and marker resolution (retrieve_entity) are outside.
