// SimpleMarkerAllocator (src/saveload/marker.rs): marker ids stay unique because every id in the table is below the counter.
use std::collections::HashMap;

pub struct Entity(pub u32, pub i32);   // opaque here: only stored and returned
impl Clone for Entity { fn clone(&self) -> (r: Self) ensures r == *self { Entity(self.0, self.1) } }
impl Copy for Entity {}

impl<T> SimpleMarkerAllocator<T> {
    // every id the table knows is below the counter, so a freshly counted id is new
    pub open spec fn wf(&self) -> bool {
        forall|k: u64| #![trigger self.mapping@.dom().contains(k)] self.mapping@.dom().contains(k) ==> k < self.index
    }
}
pub open spec fn max64(a: u64, b: u64) -> u64 { if a >= b { a } else { b } }

