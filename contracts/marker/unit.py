# Unit `marker`: SimpleMarkerAllocator (C15, reduced)
from vx.unit import Unit, E

MK = 'src/saveload/marker.rs'


def build():
    u = Unit('marker', prelude=[('prelude/uuid.rs', 'private')], spec=['marker/spec.rs'], files=[MK])
    u.struct(MK, ['struct SimpleMarker'], derive='Clone, Copy', rules=[('N10', r'T: \?Sized', 'T')])
    u.struct(MK, ['struct SimpleMarkerAllocator'], rules=[('N10', r'T: \?Sized', 'T')])
    u.fn(MK, ['impl<T> Marker for SimpleMarker<T>', 'fn id'], ret='r', props='C15', impl_header='impl<T> SimpleMarker<T>', key='SimpleMarker::id',
         ensures=[E('val', 'r == self.0')])
    AH = 'impl<T> MarkerAllocator<SimpleMarker<T>> for SimpleMarkerAllocator<T>'
    AI = 'impl<T> SimpleMarkerAllocator<T>'
    u.fn(MK, [AH, 'fn allocate'], ret='r', props='C15 C20', impl_header=AI, key='SimpleMarkerAllocator::allocate',
         requires=[E('wf', 'old(self).wf()'),
                   E('headroom', 'match id { Some(i) => i < u64::MAX, None => old(self).index < u64::MAX }')],
         ensures=[E('wf', 'final(self).wf()'),
                  E('id', 'r.0 == (match id { Some(i) => i, None => old(self).index })'),
                  E('fresh', 'id is None ==> !old(self).mapping@.dom().contains(r.0)'),
                  E('counter', 'final(self).index == (match id { Some(i) => max64(old(self).index, (i + 1) as u64), None => (old(self).index + 1) as u64 })'),
                  E('table', 'final(self).mapping@ == old(self).mapping@.insert(r.0, entity)')])
    u.fn(MK, [AH, 'fn retrieve_entity_internal'], ret='r', props='C15', impl_header=AI, key='SimpleMarkerAllocator::retrieve_entity_internal',
         ensures=[E('lookup', 'r == (if self.mapping@.dom().contains(id) { Some(self.mapping@[id]) } else { None })')])
    # ---- the UUID marker allocator (src/saveload/uuid.rs; compiled under the `uuid_entity` feature)
    UU = 'src/saveload/uuid.rs'
    u.files = u.files + [UU]
    u.struct(UU, ['struct UuidMarker'], derive='Clone')
    u.struct(UU, ['struct UuidMarkerAllocator'])
    u.fn(UU, ['impl UuidMarker', 'fn new'], ret='r', props='C15', key='UuidMarker::new', ensures=[E('val', 'r.uuid == uuid')])
    u.fn(UU, ['impl UuidMarker', 'fn new_random'], ret='r', props='C15', key='UuidMarker::new_random',
         rules=[('N10', r'Uuid::new_v4\(\)', 'uuid_new_v4()')])
    u.fn(UU, ['impl UuidMarker', 'fn uuid'], ret='r', props='C15', key='UuidMarker::uuid', ensures=[E('val', 'r == self.uuid')])
    u.fn(UU, ['impl Marker for UuidMarker', 'fn id'], ret='r', props='C15', impl_header='impl UuidMarker', key='UuidMarker::id',
         ensures=[E('val', 'r == self.uuid')])
    u.fn(UU, ['impl UuidMarkerAllocator', 'fn new'], ret='r', props='C15', key='UuidMarkerAllocator::new',
         ensures=[E('empty', 'r.mapping@ == Map::<Uuid, Entity>::empty()')])
    UH = 'impl MarkerAllocator<UuidMarker> for UuidMarkerAllocator'
    UI = 'impl UuidMarkerAllocator'
    u.fn(UU, [UH, 'fn allocate'], ret='r', props='C15', impl_header=UI, key='UuidMarkerAllocator::allocate',
         ensures=[E('id', 'id is Some ==> r.uuid == id->0'),
                  E('table', 'final(self).mapping@ == old(self).mapping@.insert(r.uuid, entity)')])
    u.fn(UU, [UH, 'fn retrieve_entity_internal'], ret='r', props='C15', impl_header=UI, key='UuidMarkerAllocator::retrieve_entity_internal',
         ensures=[E('lookup', 'r == (if self.mapping@.dom().contains(id) { Some(self.mapping@[id]) } else { None })')])
    # ---- maintain: the table is REBUILT from the marked live entities (stale ids of deleted / re-marked entities disappear)
    u.fn(MK, [AH, 'fn maintain'], props='C15 C20', impl_header=AI, key='SimpleMarkerAllocator::maintain',
         rules=[('N10', r'\(entities, storage\)\s*\.join\(\)\s*\.map\(\|\((\w+), (\w+)\)\| \(\2\.id\(\), \1\)\)\s*\.collect\(\)', 'collect_marker_join::<SimpleMarker<T>, u64>(entities, storage)')],
         ensures=[E('rebuilt', 'final(self).mapping@ == marked::<SimpleMarker<T>, u64>(entities, storage)'), E('counter', 'final(self).index == old(self).index')])
    u.fn(UU, [UH, 'fn maintain'], props='C15 C20', impl_header=UI, key='UuidMarkerAllocator::maintain',
         rules=[('N10', r'\(entities, storage\)\s*\.join\(\)\s*\.map\(\|\((\w+), (\w+)\)\| \(\2\.uuid\(\), \1\)\)\s*\.collect\(\)', 'collect_marker_join::<UuidMarker, Uuid>(entities, storage)')],
         ensures=[E('rebuilt', 'final(self).mapping@ == marked::<UuidMarker, Uuid>(entities, storage)')])
    return u
