# Unit `marker`: SimpleMarkerAllocator (C15, reduced)
from vx.unit import Unit, E

MK = 'src/saveload/marker.rs'


def build():
    u = Unit('marker', prelude=[], spec=['marker/spec.rs'], files=[MK])
    u.struct(MK, ['struct SimpleMarker'], derive='Clone, Copy', rules=[('N10', r'T: \?Sized', 'T')])
    u.struct(MK, ['struct SimpleMarkerAllocator'], rules=[('N10', r'T: \?Sized', 'T')])
    u.fn(MK, ['impl<T> Marker for SimpleMarker<T>', 'fn id'], ret='r', props='C15', impl_header='impl<T> SimpleMarker<T>', key='SimpleMarker::id',
         ensures=[E('val', 'r == self.0')])
    AH = 'impl<T> MarkerAllocator<SimpleMarker<T>> for SimpleMarkerAllocator<T>'
    AI = 'impl<T> SimpleMarkerAllocator<T>'
    u.fn(MK, [AH, 'fn allocate'], ret='r', props='C15 C20', impl_header=AI, key='SimpleMarkerAllocator::allocate',
         requires=[E('wf', 'old(self).wf()'),
                   E('headroom', 'match id { Some(i) => i < u64::MAX, None => old(self).index < u64::MAX }')],
         ensures=[E('wf', 'final(self).wf()'),
                  E('id', 'r.0 == (match id { Some(i) => i, None => old(self).index })'),
                  E('fresh', 'id is None ==> !old(self).mapping@.dom().contains(r.0)'),
                  E('counter', 'final(self).index == (match id { Some(i) => max64(old(self).index, (i + 1) as u64), None => (old(self).index + 1) as u64 })'),
                  E('table', 'final(self).mapping@ == old(self).mapping@.insert(r.0, entity)')])
    u.fn(MK, [AH, 'fn retrieve_entity_internal'], ret='r', props='C15', impl_header=AI, key='SimpleMarkerAllocator::retrieve_entity_internal',
         ensures=[E('lookup', 'r == (if self.mapping@.dom().contains(id) { Some(self.mapping@[id]) } else { None })')])
    return u
