// ChangeSet (src/changeset.rs). Its inner storage is the concrete DenseVecStorage<T>; here it is an opaque
// implementor of the trait-level storage contract (its conformance is the bounded Kani part of C04).
// stand-in for std::ops::AddAssign on the generic amount type: `a += b` replaces a by add_spec(a, b)
// (what "combination in arrival order" means: add_spec need not be commutative)
pub trait AddAssign: Sized {
    spec fn add_spec(self, rhs: Self) -> Self;
    fn add_assign(&mut self, rhs: Self)
        ensures *final(self) == old(self).add_spec(rhs);
}

impl<T> ChangeSet<T> {
    pub open spec fn wf(&self) -> bool {
        &&& self.inner.us_wf()
        &&& forall|i: Index| #![trigger self.mask@.contains(i)] #![trigger self.inner.has(i)] self.mask@.contains(i) <==> self.inner.has(i)
    }
    // entity index -> accumulated amount
    pub open spec fn view(&self) -> Map<Index, T> { Map::new(self.mask@, |i: Index| self.inner.val(i)) }
}

// folding a whole sequence of pairs through `add`, in arrival order
pub open spec fn cs_fold<T: AddAssign>(m: Map<Index, T>, pairs: Seq<(Index, T)>) -> Map<Index, T>
    decreases pairs.len()
{
    if pairs.len() == 0 { m } else {
        let (id, v) = pairs[0];
        let m2 = if m.dom().contains(id) { m.insert(id, m[id].add_spec(v)) } else { m.insert(id, v) };
        cs_fold(m2, pairs.drop_first())
    }
}
// C16: an entity that is never mentioned gets nothing; every mentioned one gets an entry
//@props C16
pub proof fn lemma_fold_dom<T: AddAssign>(m: Map<Index, T>, pairs: Seq<(Index, T)>, id: Index)
    ensures cs_fold(m, pairs).dom().contains(id) == (m.dom().contains(id) || exists|k: int| 0 <= k < pairs.len() && (#[trigger] pairs[k]).0 == id),
    decreases pairs.len()
{
    if pairs.len() > 0 {
        let (i0, v) = pairs[0];
        let m2 = if m.dom().contains(i0) { m.insert(i0, m[i0].add_spec(v)) } else { m.insert(i0, v) };
        lemma_fold_dom(m2, pairs.drop_first(), id);
        let rest = pairs.drop_first();
        if exists|k: int| 0 <= k < rest.len() && (#[trigger] rest[k]).0 == id {
            let k = choose|k: int| 0 <= k < rest.len() && (#[trigger] rest[k]).0 == id;
            assert(pairs[k + 1].0 == id);
        }
        if exists|k: int| 0 <= k < pairs.len() && (#[trigger] pairs[k]).0 == id {
            let k = choose|k: int| 0 <= k < pairs.len() && (#[trigger] pairs[k]).0 == id;
            if k > 0 { assert(rest[k - 1].0 == id); }
        }
    }
}

// one arrival: what `add` does to the abstract map
pub open spec fn cs_step<T: AddAssign>(m: Map<Index, T>, id: Index, v: T) -> Map<Index, T> {
    if m.dom().contains(id) { m.insert(id, m[id].add_spec(v)) } else { m.insert(id, v) }
}
// the (entity, amount) pairs as (index, amount) pairs
pub open spec fn cs_pairs<T>(s: Seq<(Entity, T)>) -> Seq<(Index, T)> { s.map_values(|p: (Entity, T)| (p.0.0, p.1)) }
// folding one more arrival at the END equals one step after the fold (cs_fold unfolds from the front)
pub proof fn lemma_fold_push<T: AddAssign>(m: Map<Index, T>, pairs: Seq<(Index, T)>, id: Index, v: T)
    ensures cs_fold(m, pairs.push((id, v))) == cs_step(cs_fold(m, pairs), id, v),
    decreases pairs.len()
{
    let ext = pairs.push((id, v));
    if pairs.len() == 0 {
        assert(ext.drop_first() =~= Seq::<(Index, T)>::empty());
        assert(ext[0] == (id, v));
        assert(cs_fold(cs_step(m, id, v), ext.drop_first()) == cs_step(m, id, v));
    } else {
        let (i0, v0) = pairs[0];
        let m2 = cs_step(m, i0, v0);
        assert(ext[0] == pairs[0]);
        assert(ext.drop_first() =~= pairs.drop_first().push((id, v)));
        lemma_fold_push(m2, pairs.drop_first(), id, v);
    }
}
