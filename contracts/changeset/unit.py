# Unit `changeset`: ChangeSet::add / clear and its join members (C16)
import importlib.util, os
from vx.unit import Unit, E

_here = os.path.dirname(os.path.abspath(__file__))
_s = importlib.util.spec_from_file_location('unit_join_base', os.path.join(_here, '..', 'join', 'unit.py'))
_join = importlib.util.module_from_spec(_s)
_s.loader.exec_module(_join)
_k = importlib.util.spec_from_file_location('unit_kinds_base', os.path.join(_here, '..', 'kinds', 'unit.py'))
_kinds = importlib.util.module_from_spec(_k)
_k.loader.exec_module(_kinds)

CS = 'src/changeset.rs'


def build():
    u = _join.build()
    u.name = 'changeset'
    # the change set's inner storage is the concrete DenseVecStorage<T>: its real impl is part of this unit
    u.prelude = u.prelude + [('prelude/std_unsafe.rs', 'private')]
    u.spec = u.spec + ['kinds/spec.rs', 'changeset/spec.rs']
    u.files = u.files + [CS]
    _kinds.add_dense(u, extra='C16')
    _kinds.add_dense_slice(u, extra='C16')
    u.struct(CS, ['struct ChangeSet'], attr='#[verifier::reject_recursive_types(T)]')
    CI = 'impl<T> ChangeSet<T>'
    NEW_ENS = [E('wf', 'r.wf()'), E('empty', 'r@ == Map::<Index, T>::empty()')]
    u.fn(CS, ['impl<T> Default for ChangeSet<T>', 'fn default'], ret='r', props='C16', key='ChangeSet::default', impl_header=CI, ensures=NEW_ENS,
         rules=[('N12', r'inner: Default::default\(\)', 'inner: DenseVecStorage::default()')])
    u.fn(CS, [CI, 'fn new'], ret='r', props='C16', key='ChangeSet::new', ensures=NEW_ENS,
         rules=[('N12', r'Default::default\(\)', 'Self::default()')])
    u.fn(CS, [CI, 'fn add'], props='C16', key='ChangeSet::add', n16=True,
         requires=[E('wf', 'old(self).wf()')],
         ensures=[E('wf', 'final(self).wf()'),
                  E('accumulate', 'old(self)@.dom().contains(entity.0) ==> final(self)@ == old(self)@.insert(entity.0, old(self)@[entity.0].add_spec(value))'),
                  E('first', '!old(self)@.dom().contains(entity.0) ==> final(self)@ == old(self)@.insert(entity.0, value)')])
    u.fn(CS, [CI, 'fn clear'], props='C16', key='ChangeSet::clear',
         hints=[('before', 'unsafe { self.inner.clean(', 'proof { assert(/*@L:hint.mask_taken*/ self.mask@ == Set::<u32>::empty() /*@E*/); }', 'soft')],
         hint_obligations=[E('mask_taken', 'when clean() runs the destructors the change set mask has already been swapped for the empty one', 'C19')],
         requires=[E('wf', 'old(self).wf()')],
         ensures=[E('wf', 'final(self).wf()'), E('empty', 'final(self)@ == Map::<Index, T>::empty()')])
    # FromIterator::from_iter / Extend::extend: a `for` loop over a generic IntoIterator calling `add` per pair. Verus has no iteration laws for
    # an arbitrary generic iterator, so the type parameter `I` is INSTANTIATED at Vec<(Entity, T)> (N8); the result is the fold of the pairs in
    # arrival order
    FOLD_INV = lambda base: [E('wf', 'CS.wf()'.replace('CS', base[0])),
                             E('fold', '%s@ == cs_fold(%s, cs_pairs(iter@.subrange(0, it.index@ as int)))' % (base[0], base[1])),
                             E('seq', 'it.seq() == iter@')]
    STEP_HINT = lambda cur, base: ('before', '%s.add(entity, d)' % cur, 'proof { let k = it.index@ as int; assert(iter@.subrange(0, k + 1) =~= iter@.subrange(0, k).push(iter@[k])); assert(cs_pairs(iter@.subrange(0, k + 1)) =~= cs_pairs(iter@.subrange(0, k)).push((iter@[k].0.0, iter@[k].1))); lemma_fold_push(%s, cs_pairs(iter@.subrange(0, k)), iter@[k].0.0, iter@[k].1); }' % base)
    u.fn(CS, ['impl<T> Extend<(Entity, T)> for ChangeSet<T>', 'fn extend'], props='C16', key='ChangeSet::extend', impl_header='impl<T: AddAssign> ChangeSet<T>', n16=True,
         rules=[('N8', r'fn extend<I: IntoIterator<Item = \(Entity, T\)>>\(&mut self, iter: I\)', 'fn extend(&mut self, iter: Vec<(Entity, T)>)')],
         requires=[E('wf', 'old(self).wf()')],
         ensures=[E('wf', 'final(self).wf()'), E('fold', 'final(self)@ == cs_fold(old(self)@, cs_pairs(iter@))')],
         loops={0: dict(iter_name='it', invariant=FOLD_INV(('self', 'old(self)@')))},
         hints=[STEP_HINT('self', 'old(self)@'), ('after_loop', 0, 'proof { assert(iter@.subrange(0, iter@.len() as int) =~= iter@); }')])
    u.fn(CS, ['impl<T> FromIterator<(Entity, T)> for ChangeSet<T>', 'fn from_iter'], ret='r', props='C16', key='ChangeSet::from_iter', impl_header='impl<T: AddAssign> ChangeSet<T>',
         rules=[('N8', r'fn from_iter<I: IntoIterator<Item = \(Entity, T\)>>\(iter: I\)', 'fn from_iter(iter: Vec<(Entity, T)>)')],
         ensures=[E('wf', 'r.wf()'), E('fold', 'r@ == cs_fold(Map::<Index, T>::empty(), cs_pairs(iter@))')],
         loops={0: dict(iter_name='it', invariant=FOLD_INV(('changeset', 'Map::<Index, T>::empty()')))},
         hints=[STEP_HINT('changeset', 'Map::<Index, T>::empty()'), ('after_loop', 0, 'proof { assert(iter@.subrange(0, iter@.len() as int) =~= iter@); }')])
    # ---- join members of the change set
    def member(gname, header, pre_file, path_hdr, trait):
        pre = open(os.path.join(_here, '..', 'join', 'members', pre_file)).read()
        u.groups[gname] = dict(header=header, pre=pre, private=False)
        tl = 'trait.' + ('lend_' if trait == 'LendJoin' else '')
        for f in ('open', 'get'):
            labels = ['mask', 'pre'] if f == 'open' else ['item', 'keeps']
            u.fn(CS, [path_hdr, 'fn ' + f], props='C16 C06', group=gname, key='%s::%s' % (gname, f),
                 rules=[('N8', r"Self::Type<'next>", 'Self::Type')],
                 hint_obligations=[E('%s%s.%s' % (tl, f, l), 'inherited postcondition of %s::%s (%s)' % (trait, f, l)) for l in labels])
    for trait in ('Join', 'LendJoin'):
        t = 'j' if trait == 'Join' else 'lj'
        member('%s_changeset_ref' % t, "unsafe impl<'a, T> %s for &'a ChangeSet<T>" % trait, 'cs_ref.rs', "impl<'a, T> %s for &'a ChangeSet<T>" % trait, trait)
        member('%s_changeset_val' % t, "unsafe impl<T> %s for ChangeSet<T>" % trait, 'cs_val.rs', "impl<T> %s for ChangeSet<T>" % trait, trait)
    LMH = "impl<'a, T> LendJoin for &'a mut ChangeSet<T>"
    u.fn(CS, [LMH, 'fn open'], ret='r', props='C16 C06', free='changeset_mut_lend_open', key='lj_changeset_mut::open',
         rules=[('N12', r'fn open\(self\)', "fn open<'a, T>(self_: &'a mut ChangeSet<T>)"), ('N12', r'Self::Mask', "&'a BitSet"),
                ('N12', r'Self::Value', "&'a mut DenseVecStorage<T>"), ('N12', r'\bself\b', 'self_')],
         requires=[E('wf', 'old(self_).wf()')],
         ensures=[E('mask', 'r.0@ == old(self_).mask@'), E('same_storage', '*r.1 == old(self_).inner'),
                  E('pre', 'forall|id: Index| #![trigger r.1.has(id)] r.0@.contains(id) ==> r.1.has(id)')])
    u.fn(CS, [LMH, 'fn get'], ret='r', props='C16 C06', free='changeset_mut_lend_get', key='lj_changeset_mut::get',
         rules=[('N12', r"fn get<'next>\(", "fn get<'a, 'next, T>("), ('N12', r'Self::Value', "&'a mut DenseVecStorage<T>"), ('N8', r"Self::Type<'next>", "&'next mut T")],
         requires=[E('inmask', 'old(value).has(id)')],
         ensures=[E('item', '*r == old(value).val(id) && final(value).val(id) == *final(r)'),
                  E('only_own', '(forall|j: Index| #![trigger final(value).has(j)] final(value).has(j) == old(value).has(j)) && (forall|j: Index| #![trigger final(value).val(j)] j != id ==> final(value).val(j) == old(value).val(j))')])
    # the NON-lending `&mut ChangeSet` member: through SharedGetMutOnly (under contract in unit join, N3)
    JMH = "impl<'a, T> Join for &'a mut ChangeSet<T>"
    u.fn(CS, [JMH, 'fn open'], ret='r', props='C16 C06', free='changeset_mut_j_open', key='j_changeset_mut::open',
         rules=[('N12', r'fn open\(self\)', "fn open<'a, T>(self_: &'a mut ChangeSet<T>)"), ('N12', r'Self::Mask', "&'a BitSet"),
                ('N12', r'Self::Value', "SharedGetMutOnly<'a, T, DenseVecStorage<T>>"), ('N12', r'\bself\b', 'self_')],
         requires=[E('wf', 'old(self_).wf()')],
         ensures=[E('mask', 'r.0@ == old(self_).mask@'), E('same_storage', '*r.1.0 == old(self_).inner'),
                  E('pre', 'forall|id: Index| #![trigger r.1.0.has(id)] r.0@.contains(id) ==> r.1.0.has(id)')])
    u.fn(CS, [JMH, 'fn get'], ret='r', props='C16 C06', free='changeset_mut_j_get', key='j_changeset_mut::get',
         rules=[('N12', r"fn get\(", "fn get<'a, 'next, T>("), ('N3', r'value: &mut Self::Value', "value: &'next mut SharedGetMutOnly<'a, T, DenseVecStorage<T>>"),
                ('N8', r'-> Self::Type', "-> &'next mut T")],
         requires=[E('inmask', 'old(value).0.has(id)')],
         ensures=[E('item', '*r == old(value).0.val(id) && final(value).0.val(id) == *final(r)'),
                  E('only_own', '(forall|j: Index| #![trigger final(value).0.has(j)] final(value).0.has(j) == old(value).0.has(j)) && (forall|j: Index| #![trigger final(value).0.val(j)] j != id ==> final(value).0.val(j) == old(value).0.val(j))')])
    return u
