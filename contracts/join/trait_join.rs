// Trait-level contract of `Join` (src/join/mod.rs): specification of the required methods; the default methods that follow are extracted.

    type Type;
    type Value;
    type Mask: BitSetLike;
    // the set of indices this member contributes to the intersection
    spec fn jmask(&self) -> Set<u32>;
    // `get` may be called for id on value v  (the "id is in the mask that open returned" obligation)
    spec fn get_pre(v: &Self::Value, id: Index) -> bool;
    // what `get` returns for id
    spec fn get_post(ov: &Self::Value, id: Index, r: &Self::Type, nv: &Self::Value) -> bool;

    // what `open` needs of the member (e.g. the storage's mask/content invariant)
    spec fn open_pre(&self) -> bool;

    unsafe fn open(self) -> (r: (Self::Mask, Self::Value))
        requires self.open_pre(),
        ensures
            /*@L:trait.open.mask*/ r.0.bview() == self.jmask() /*@E*/,
            /*@L:trait.open.pre*/ forall|id: Index| #![trigger Self::get_pre(&r.1, id)] self.jmask().contains(id) ==> Self::get_pre(&r.1, id) /*@E*/;

    unsafe fn get(value: &mut Self::Value, id: Index) -> (r: Self::Type)
        requires Self::get_pre(old(value), id),
        ensures
            /*@L:trait.get.item*/ Self::get_post(old(value), id, &r, final(value)) /*@E*/,
            /*@L:trait.get.keeps*/ forall|j: Index| #![trigger Self::get_pre(final(value), j)] j != id && Self::get_pre(old(value), j) ==> Self::get_pre(final(value), j) /*@E*/;

