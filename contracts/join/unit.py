# Unit `join`: the sequential join machinery against a trait-level Join contract (C06, reduced)
import importlib.util, os
from vx.unit import Unit, E

_here = os.path.dirname(os.path.abspath(__file__))
_s = importlib.util.spec_from_file_location('unit_storage_base', os.path.join(_here, '..', 'storage', 'unit.py'))
_storage = importlib.util.module_from_spec(_s)
_s.loader.exec_module(_storage)

JM = 'src/join/mod.rs'
LJ = 'src/join/lend_join.rs'


def build():
    u = _storage.build()
    u.name = 'join'
    u.spec = u.spec + ['join/spec.rs']
    u.files = u.files + [JM, LJ, 'src/join/maybe.rs', 'src/join/bit_and.rs']
    u.struct('src/world/entity.rs', ['type Entities'])
    u.groups['trait_join'] = dict(header='unsafe trait Join: Sized', pre='join/trait_join.rs')
    u.groups['trait_lend_join'] = dict(header='unsafe trait LendJoin: Sized', pre='join/trait_lend_join.rs')
    u.fn(JM, ['trait Join', 'fn is_unconstrained'], ret='r', props='C06', group='trait_join', key='Join::is_unconstrained(default)')
    # Join::join / LendJoin::lend_join defaults (one-line `JoinIter::new(self)`) cannot sit in the trait: Verus rejects the
    # trait -> JoinIter<J: Join> -> trait cycle in specifications; JoinIter::new itself is under contract.
    u.fn(LJ, ['trait LendJoin', 'fn is_unconstrained'], ret='r', props='C06', group='trait_lend_join', key='LendJoin::is_unconstrained(default)')
    u.struct(JM, ['struct JoinIter'])
    u.fn(JM, ['impl<J: Join> JoinIter<J>', 'fn new'], ret='r', props='C06 C20', key='JoinIter::new',
         requires=[E('open_pre', 'j.open_pre()')],
         ensures=[E('keys', 'r.keys.rem() == sorted_seq(j.jmask()) && r.keys.set_view() == j.jmask()'),
                  E('wf', 'r.wf()')],
         hints=[('start', None, 'broadcast use axiom_sorted_seq;'),
                ('before_tail', None, 'proof { let s = sorted_seq(j.jmask()); assert forall|k: int| 0 <= k < s.len() implies J::get_pre(&values, #[trigger] s[k]) by { assert(s.contains(s[k])); } }')])
    u.fn(JM, ['impl<J: Join> std::iter::Iterator for JoinIter<J>', 'fn next'], ret='r', props='C06 C20',
         impl_header='impl<J: Join> JoinIter<J>', key='JoinIter::next', n4c=True,
         requires=[E('wf', 'old(self).wf()')],
         ensures=[E('wf', 'final(self).wf()'),
                  E('end', 'old(self).keys.rem().len() == 0 ==> r is None'),
                  E('item', 'old(self).keys.rem().len() > 0 ==> r is Some && J::get_post(&old(self).values, old(self).keys.rem()[0], &r.unwrap(), &final(self).values)'),
                  E('advance', 'old(self).keys.rem().len() > 0 ==> final(self).keys.rem() == old(self).keys.rem().drop_first()'),
                  E('mask', 'final(self).keys.set_view() == old(self).keys.set_view()')])
    # ---- lending iterator
    u.struct(LJ, ['struct JoinLendIter'])
    LT = [('N8', r"LendJoinType<'_, J>", 'J::Type')]
    LI = 'impl<J: LendJoin> JoinLendIter<J>'
    u.fn(LJ, [LI, 'fn new'], ret='r', props='C06 C20', key='JoinLendIter::new', nth=None,
         requires=[E('open_pre', 'j.open_pre()')],
         ensures=[E('keys', 'r.keys.rem() == sorted_seq(j.jmask()) && r.keys.set_view() == j.jmask()'), E('wf', 'r.wf()'), E('wf_all', 'r.wf_all()')],
         hints=[('start', None, 'broadcast use axiom_sorted_seq;'),
                ('before_tail', None, 'proof { let s = sorted_seq(j.jmask()); assert forall|k: int| 0 <= k < s.len() implies J::get_pre(&values, #[trigger] s[k]) by { assert(s.contains(s[k])); } }')])
    u.fn(LJ, [LI, 'fn next'], ret='r', props='C06 C20', key='JoinLendIter::next', rules=LT, n4c=True,
         requires=[E('wf', 'old(self).wf()')],
         ensures=[E('wf', 'final(self).wf()'),
                  E('wf_all', 'old(self).wf_all() && repeatable::<J>() ==> final(self).wf_all()'),
                  E('end', 'old(self).keys.rem().len() == 0 ==> r is None'),
                  E('item', 'old(self).keys.rem().len() > 0 ==> r is Some && J::get_post(&old(self).values, old(self).keys.rem()[0], &r.unwrap(), &final(self).values)'),
                  E('advance', 'old(self).keys.rem().len() > 0 ==> final(self).keys.rem() == old(self).keys.rem().drop_first()'),
                  E('mask', 'final(self).keys.set_view() == old(self).keys.set_view()')])
    # for_each: N26 (`mut self` / `mut f` -> rebinding: Verus has no `mut self`), N27 (`X.for_each(|idx| { B })` -> `for idx in X { B }`, the
    # definition of Iterator::for_each — applied only when B contains no `return`, which would change meaning), `impl FnMut(T)` -> a
    # generic `F: Fn(T)` (Verus cannot call FnMut parameters; the callback's own effects are not part of the property)
    u.fn(LJ, [LI, 'fn for_each'], props='C06', key='JoinLendIter::for_each', rules=LT + [
             ('N26', r"fn for_each\(mut self, mut f: impl FnMut\(J::Type\)\) \{", "fn for_each<F: Fn(J::Type)>(self, f: F) { let mut self_ = self;"),
             ('N27', r"self\.keys\.for_each\(\|idx\| \{((?:(?!\breturn\b)[\s\S])*)\}\)\s*\}\s*$", r"for idx in self_.keys {\1} }"),
             ('N26', r'&mut self\.values', '&mut self_.values')],
         requires=[E('wf', 'self.wf()'), E('callable', 'forall|x: J::Type| f.requires((x,))')],
         hint_obligations=[E('visits_head', 'each iteration fetches exactly the next remaining key of the joined mask', 'C06')],
         loops={0: dict(iter_name='it', invariant=[
             E('seq', 'it.seq() == self.keys.rem()'),
             E('pre', 'forall|k: int| it.index@ <= k < it.seq().len() ==> J::get_pre(&self_.values, #[trigger] it.seq()[k])'),
             E('asc', 'forall|a: int, b: int| 0 <= a < b < it.seq().len() ==> it.seq()[a] < it.seq()[b]'),
             E('callable', 'forall|x: J::Type| f.requires((x,))')])},
         hints=[('before', 'J::get(&mut self_.values, idx)', 'proof { assert(/*@L:hint.visits_head*/ idx == self.keys.rem()[it.index@ as int] /*@E*/); }')])
    u.fn(LJ, [LI, 'fn get'], ret='r', props='C03 C06', key='JoinLendIter::get', rules=LT,
         hints=[('start', None, 'proof { assert forall|ov: &J::Value, id: Index, r: &J::Type, nv: &J::Value| J::get_pre(ov, id) && #[trigger] J::get_post(ov, id, r, nv) implies J::get_pre(nv, id) by { J::lemma_repeat(ov, id, r, nv); } }')],
         requires=[E('wf_all', 'old(self).wf_all()'), E('ents', 'ent_ok(*entities)')],
         ensures=[E('wf_all', 'final(self).wf_all()'),
                  E('stale', '!live(*entities, entity) ==> r is None', 'C03'),
                  E('rule', 'r is Some <==> (old(self).keys.set_view().contains(entity.0) && live(*entities, entity))', 'C06 C03'),
                  E('item', 'r is Some ==> J::get_post(&old(self).values, entity.0, &r.unwrap(), &final(self).values)'),
                  E('keys', 'final(self).keys == old(self).keys')])
    u.fn(LJ, [LI, 'fn get_unchecked'], ret='r', props='C06', key='JoinLendIter::get_unchecked', rules=LT,
         hints=[('start', None, 'proof { assert forall|ov: &J::Value, id: Index, r: &J::Type, nv: &J::Value| J::get_pre(ov, id) && #[trigger] J::get_post(ov, id, r, nv) implies J::get_pre(nv, id) by { J::lemma_repeat(ov, id, r, nv); } }')],
         requires=[E('wf_all', 'old(self).wf_all()')],
         ensures=[E('wf_all', 'final(self).wf_all()'),
                  E('rule', 'r is Some <==> old(self).keys.set_view().contains(index)'),
                  E('item', 'r is Some ==> J::get_post(&old(self).values, index, &r.unwrap(), &final(self).values)'),
                  E('keys', 'final(self).keys == old(self).keys')])
    # ---- the provided entry points `Join::join`, `LendJoin::lend_join`, `LendJoin::maybe` (one-liners; N12: as free functions, because a
    # default method that mentions JoinIter<Self> inside the trait is a specification cycle for Verus)
    u.fn(JM, ['trait Join', 'fn join'], ret='r', props='C06 C20', free='join_default', key='Join::join(default)',
         rules=[('N12', r'fn join\(self\) -> JoinIter<Self>\s*where\s*Self: Sized,', 'fn join<J: Join>(self_: J) -> JoinIter<J>'), ('N12', r'JoinIter::new\(self\)', 'JoinIter::new(self_)')],
         requires=[E('open_pre', 'self_.open_pre()')],
         ensures=[E('keys', 'r.keys.rem() == sorted_seq(self_.jmask()) && r.keys.set_view() == self_.jmask()'), E('wf', 'r.wf()')])
    u.fn(LJ, ['trait LendJoin', 'fn lend_join'], ret='r', props='C06 C20', free='lend_join_default', key='LendJoin::lend_join(default)',
         rules=[('N12', r'fn lend_join\(self\) -> JoinLendIter<Self>\s*where\s*Self: Sized,', 'fn lend_join<J: LendJoin>(self_: J) -> JoinLendIter<J>'), ('N12', r'JoinLendIter::new\(self\)', 'JoinLendIter::new(self_)')],
         requires=[E('open_pre', 'self_.open_pre()')],
         ensures=[E('keys', 'r.keys.rem() == sorted_seq(self_.jmask()) && r.keys.set_view() == self_.jmask()'), E('wf', 'r.wf() && r.wf_all()')])
    u.fn(LJ, ['trait LendJoin', 'fn maybe'], ret='r', props='C06', free='lend_maybe_default', key='LendJoin::maybe(default)',
         rules=[('N12', r'fn maybe\(self\) -> MaybeJoin<Self>\s*where\s*Self: Sized,', 'fn maybe<J: LendJoin>(self_: J) -> MaybeJoin<J>'), ('N12', r'MaybeJoin\(self\)', 'MaybeJoin(self_)')],
         ensures=[E('wraps', 'r.0 == self_')])
    # ---- members: REAL trait impls, each checked by Verus against the trait-level contract
    SM = 'src/storage/mod.rs'
    def member(gname, header, pre_file, file, path_hdr, trait, fns=('open', 'get'), rules=(), props='C06', subst=None):
        pre = open(os.path.join(_here, 'members', pre_file)).read().replace('JOINTRAIT', trait)
        u.groups[gname] = dict(header=header, pre=pre, private=False)
        tl = 'trait.' + ('lend_' if trait == 'LendJoin' else '')
        for f in fns:
            labels = [('mask', props), ('pre', props)] if f == 'open' else [('item', props), ('keeps', props)]
            extra = {}
            if gname.endswith('_entities') and f == 'get':
                extra = dict(closures={'map:|gen|': dict(params='gen: Generation', ret='r__: Generation',
                                                     requires=[('range', 'gen.0@ != 0 && gen.0@ > i32::MIN + 1')],
                                                     ensures=[('val', 'r__.0@ == (if gen.0@ > 0 { gen.0@ as int } else { 1 - gen.0@ })')])},
                             hints=[('start', None, 'proof { lemma_gid_facts(&v.alloc, id); }')])
            u.fn(file, [path_hdr, 'fn ' + f], props=props, group=gname, key='%s::%s' % (gname, f), rules=list(rules), **extra,
                 hint_obligations=[E('%s%s.%s' % (tl, f, l), 'inherited postcondition of %s::%s (%s)' % (trait, f, l), p) for (l, p) in labels])
    for trait in ('Join', 'LendJoin'):
        t = 'j' if trait == 'Join' else 'lj'
        member('%s_storage_ref' % t, "unsafe impl<'a, 'e, 'd, T> %s for &'a Storage<'e, T, &'d MaskedStorage<T>> where T: Component," % trait,
               'storage_ref.rs', SM, "impl<'a, 'e, T, D> %s for &'a Storage<'e, T, D>" % trait, trait)
        member('%s_anti' % t, "unsafe impl<'a> %s for AntiStorage<'a>" % trait, 'anti.rs', SM, "impl<'a> %s for AntiStorage<'a>" % trait, trait,
               rules=[('N9', r'\(_: &mut \(\), _: Index\)', '(_v: &mut (), _i: Index)'), ('N9', r"\(_: &'next mut \(\), _: Index\)", "(_v: &'next mut (), _i: Index)")])
        member('%s_drain' % t, "unsafe impl<'a, T> %s for Drain<'a, T> where T: Component," % trait, 'drain.rs', 'src/storage/drain.rs', "impl<'a, T> %s for Drain<'a, T>" % trait, trait)
    # MaybeJoin: N15 = the irrefutable tuple pattern in parameter position is unfolded into two field borrows
    MB = 'src/join/maybe.rs'
    u.struct(MB, ['struct MaybeJoin'])
    N15 = [('N15', r"\(mask, value\): &mut Self::Value, id: Index\) -> Self::Type \{", "v__: &mut Self::Value, id: Index) -> Self::Type { let mask = &v__.0; let value = &mut v__.1;"),
           ('N15', r"\(mask, value\): &'next mut Self::Value, id: Index\) -> Self::Type<'next> \{", "v__: &'next mut Self::Value, id: Index) -> Self::Type { let mask = &v__.0; let value = &mut v__.1;")]
    for trait in ('Join', 'LendJoin'):
        t = 'j' if trait == 'Join' else 'lj'
        member('%s_maybe' % t, "unsafe impl<T> %s for MaybeJoin<T> where T: %s," % (trait, trait), 'maybe.rs', MB, "impl<T> %s for MaybeJoin<T>" % trait, trait,
               fns=('open', 'get', 'is_unconstrained'), rules=N15)
    # restricted storages: S instantiated at `&C::Storage` / `&mut C::Storage` (N8); Borrow::borrow on a reference is the identity
    RSF = 'src/storage/restrict.rs'
    NB = [('N8', r'self\.data\.borrow\(\)', 'self.data'), ('N8', r'self\.data\.borrow_mut\(\)', '&mut *self.data')]
    for trait in ('Join', 'LendJoin'):
        t = 'j' if trait == 'Join' else 'lj'
        member('%s_restricted_ref' % t, "unsafe impl<'rf, C> %s for &'rf RestrictedStorage<'rf, C, &'rf C::Storage> where C: Component," % trait,
               'restricted_ref.rs', RSF, "impl<'rf, C, S> %s for &'rf RestrictedStorage<'rf, C, S>" % trait, trait, props='C13 C06', rules=NB + [('N8', r"Self::Type<'next>", 'Self::Type')])
    RMH = "impl<'rf, C, S> LendJoin for &'rf mut RestrictedStorage<'rf, C, S>"
    RV = "(&'rf mut C::Storage, &'rf Fetch<'rf, EntitiesRes>, &'rf BitSet)"
    u.fn(RSF, [RMH, 'fn open'], ret='r', props='C13 C06', free='restricted_mut_lend_open', key='lj_restricted_mut::open',
         rules=NB + [('N12', r'fn open\(self\)', "fn open<'rf, C: Component>(self_: &'rf mut RestrictedStorage<'rf, C, &'rf mut C::Storage>)"),
                     ('N12', r'Self::Mask', "&'rf BitSet"), ('N12', r'Self::Value', RV), ('N12', r'\bself\b', 'self_')],
         ensures=[E('mask', 'r.0@ == old(self_).bitset@'), E('same', '*r.1.0 == *old(self_).data && r.1.1 == old(self_).entities && r.1.2 == old(self_).bitset')])
    u.fn(RSF, [RMH, 'fn get'], ret='r', props='C13 C06', free='restricted_mut_lend_get', key='lj_restricted_mut::get',
         rules=[('N12', r"fn get<'next>\(", "fn get<'rf, 'next, C: Component>("), ('N12', r'Self::Value', RV), ('N8', r"Self::Type<'next>", "PairedStorageWriteExclusive<'next, C>")],
         ensures=[E('item', 'r.index == id && *r.storage == *old(value).0 && r.entities == old(value).1 && r.bitset == old(value).2'),
                  E('link', '*final(value).0 == *final(r.storage) && final(value).1 == old(value).1 && final(value).2 == old(value).2')])
    # non-lending / parallel `&mut RestrictedStorage` members: only `open` (mask = the storage's mask, the handle wraps the same storage);
    # their `get` duplicates the raw handle (SharedGetOnly::duplicate), which N3 cannot express
    for (trait, t) in (('Join', 'j'), ('ParJoin', 'pj')):
        RMH2 = "impl<'rf, C, S> %s for &'rf mut RestrictedStorage<'rf, C, S>" % trait
        u.fn(RSF, [RMH2, 'fn open'], ret='r', props='C13 C06' if trait == 'Join' else 'C07', free='restricted_mut_%s_open' % t, key='%s_restricted_mut::open' % t,
             rules=NB + [('N12', r'fn open\(self\)', "fn open<'rf, C: Component>(self_: &'rf mut RestrictedStorage<'rf, C, &'rf mut C::Storage>)"),
                         ('N12', r'Self::Mask', "&'rf BitSet"), ('N12', r'Self::Value', "SharedGetOnly<'rf, C, C::Storage>"), ('N12', r'\bself\b', 'self_')],
             ensures=[E('mask', 'r.0@ == old(self_).bitset@'), E('same', '*r.1.0 == *old(self_).data')])
    EF = 'src/world/entity.rs'
    for trait in ('Join', 'LendJoin'):
        t = 'j' if trait == 'Join' else 'lj'
        member('%s_entities' % t, "unsafe impl<'a> %s for &'a EntitiesRes" % trait, 'entities.rs', EF, "impl<'a> %s for &'a EntitiesRes" % trait, trait,
               props='C02 C06', rules=[_storage._alloc.GEN_ONE_CLOSURE])
    # `&mut Storage` lending member: its item type depends on the lending lifetime (a GAT), so it cannot be a real impl of the
    # collapsed trait; open/get are emitted as free functions (N12) with the member's clauses written out
    LMH = "impl<'a, 'e, T, D> LendJoin for &'a mut Storage<'e, T, D>"
    u.fn(SM, [LMH, 'fn open'], ret='r', props='C06', free='storage_mut_lend_open', key='lj_storage_mut::open',
         rules=[('N12', r'fn open\(self\)', "fn open<'a, 'e, 'd, T: Component>(self_: &'a mut Storage<'e, T, &'d mut MaskedStorage<T>>)"),
                ('N12', r'Self::Mask', "&'a BitSet"), ('N12', r'Self::Value', "&'a mut T::Storage"), ('N12', r'\bself\b', 'self_')],
         requires=[E('wf', 'old(self_).data.wf()')],
         ensures=[E('mask', 'r.0@ == old(self_).data.mask@'), E('same_storage', '*r.1 == old(self_).data.inner'),
                  E('pre', 'forall|id: Index| #![trigger r.1.has(id)] r.0@.contains(id) ==> r.1.has(id)')])
    u.fn(SM, [LMH, 'fn get'], ret='r', props='C06 C12', free='storage_mut_lend_get', key='lj_storage_mut::get',
         rules=[('N12', r"fn get<'next>\(", "fn get<'a, 'next, T: Component>("), ('N12', r'Self::Value', "&'a mut T::Storage"), ('N8', r"Self::Type<'next>", "&'next mut T")],
         requires=[E('inmask', 'old(value).has(id)')],
         ensures=[E('item', '*r == old(value).val(id) && final(value).val(id) == *final(r)'),
                  E('only_own', '(forall|j: Index| #![trigger final(value).has(j)] final(value).has(j) == old(value).has(j)) && (forall|j: Index| #![trigger final(value).val(j)] j != id ==> final(value).val(j) == old(value).val(j))'),
                  E('events', 'final(value).log() == old(value).log() + old(value).ev_get_mut(id)', 'C12')])
    # ---- the NON-lending `&mut Storage` member (`(&mut storage).join()`, the commonest mutable join) and the raw-sharing wrapper it
    # uses. N3: SharedGetMutOnly holds `&'a mut S` instead of `&'a S`, `get_mut(this: &Self)` takes `&mut Self`, the inner
    # `shared_get_mut` is the kind's `get_mut` (same contract, see units kinds/veckinds/flagged); the returned reference is tied to
    # the borrow of the wrapper instead of 'a (lifetimes have no run-time meaning; aliasing of the raw pointers is not modelled)
    SG = ['mod shared_get_mut_only']
    u.struct(SM, SG + ['struct SharedGetMutOnly'], rules=[('N3', r"\(&'a S, PhantomData<T>\)", "(&'a mut S, PhantomData<T>)")])
    SGI = "impl<'a, T, S> SharedGetMutOnly<'a, T, S>"
    u.fn(SM, SG + [SGI, 'fn new'], ret='r', props='C06 C07', key='SharedGetMutOnly::new',
         ensures=[E('same', '*r.0 == *old(storage) && *final(r.0) == *final(storage)')])
    u.fn(SM, SG + [SGI, 'fn get_mut'], ret='r', props='C06 C07 C12 C13', key='SharedGetMutOnly::get_mut',
         impl_header="impl<'a, T, S: UnprotectedStorage<T>> SharedGetMutOnly<'a, T, S>",
         rules=[('N3', r"this: &Self,", "this: &'next mut Self,"), ('N3', r'unsafe fn get_mut\(', "unsafe fn get_mut<'next>("),
                ('N8', r"<S as UnprotectedStorage<T>>::AccessMut<'a>", "&'next mut T"), ('N3', r'where\s+S: SharedGetMutStorage<T>,', ''),
                ('N3', r'this\.0\.shared_get_mut\(id\)', 'this.0.get_mut(id)')],
         requires=[E('present', 'old(this).0.has(id)')],
         ensures=[E('item', '*r == old(this).0.val(id) && final(this).0.val(id) == *final(r)'),
                  E('only_own', '(forall|j: Index| #![trigger final(this).0.has(j)] final(this).0.has(j) == old(this).0.has(j)) && (forall|j: Index| #![trigger final(this).0.val(j)] j != id ==> final(this).0.val(j) == old(this).0.val(j))'),
                  E('events', 'final(this).0.log() == old(this).0.log() + old(this).0.ev_get_mut(id)', 'C12 C13')])
    for (trait, t, vparam) in (('Join', 'j', r'value: &mut Self::Value'), ('ParJoin', 'pj', r'value: &Self::Value')):
        MH = "impl<'a, 'e, T, D> %s for &'a mut Storage<'e, T, D>" % trait
        pp = 'C06 C12 C13' if trait == 'Join' else 'C07'
        u.fn(SM, [MH, 'fn open'], ret='r', props=pp, free='storage_mut_%s_open' % t, key='%s_storage_mut::open' % t,
             rules=[('N12', r'fn open\(self\)', "fn open<'a, 'e, 'd, T: Component>(self_: &'a mut Storage<'e, T, &'d mut MaskedStorage<T>>)"),
                    ('N12', r'Self::Mask', "&'a BitSet"), ('N12', r'Self::Value', "SharedGetMutOnly<'a, T, T::Storage>"), ('N12', r'\bself\b', 'self_')],
             requires=[E('wf', 'old(self_).data.wf()')],
             ensures=[E('mask', 'r.0@ == old(self_).data.mask@'), E('same_storage', '*r.1.0 == old(self_).data.inner'),
                      E('pre', 'forall|id: Index| #![trigger r.1.0.has(id)] r.0@.contains(id) ==> r.1.0.has(id)')])
        u.fn(SM, [MH, 'fn get'], ret='r', props=pp, free='storage_mut_%s_get' % t, key='%s_storage_mut::get' % t,
             rules=[('N12', r"fn get\(", "fn get<'a, 'next, T: Component>("), ('N3', vparam, "value: &'next mut SharedGetMutOnly<'a, T, T::Storage>"),
                    ('N8', r"-> Self::Type", "-> &'next mut T")],
             requires=[E('inmask', 'old(value).0.has(id)')],
             ensures=[E('item', '*r == old(value).0.val(id) && final(value).0.val(id) == *final(r)'),
                      E('only_own', '(forall|j: Index| #![trigger final(value).0.has(j)] final(value).0.has(j) == old(value).0.has(j)) && (forall|j: Index| #![trigger final(value).0.val(j)] j != id ==> final(value).0.val(j) == old(value).0.val(j))'),
                      E('events', 'final(value).0.log() == old(value).0.log() + old(value).0.ev_get_mut(id)', 'C12' if trait == 'Join' else 'C07')])
    # `Storage::entries()` and its lending member (every index; the item is the entry for that index): free functions, as above
    EN = 'src/storage/entry.rs'
    u.struct(EN, ['struct Entries'], rules=[('N8', r"<'a, 'b: 'a, T: 'a, D: 'a>", "<'a, 'b: 'a, 'd: 'a, T: Component>"), ('N8', r"Storage<'b, T, D>", "Storage<'b, T, &'d mut MaskedStorage<T>>")])
    u.fn(EN, ["impl<'e, T, D> Storage<'e, T, D>", 'fn entries'], ret='r', props='C06 C04', key='Storage(&mut)::entries',
         impl_header="impl<'e, 'd, T> Storage<'e, T, &'d mut MaskedStorage<T>> where T: Component,",
         rules=[('N8', r"Entries<'a, 'e, T, D>", "Entries<'a, 'e, 'd, T>")],
         ensures=[E('same', '*r.0 == *old(self) && *final(r.0) == *final(self)')])
    ELH = "impl<'a, 'b: 'a, T: 'a, D: 'a> LendJoin for Entries<'a, 'b, T, D>"
    u.fn(EN, [ELH, 'fn open'], ret='r', props='C06', free='entries_lend_open', key='lj_entries::open',
         rules=[('N12', r'fn open\(self\)', "fn open<'a, 'b: 'a, 'd: 'a, T: Component>(self_: Entries<'a, 'b, 'd, T>)"),
                ('N12', r'Self::Mask', 'BitSetAll'), ('N12', r'Self::Value', "&'a mut Storage<'b, T, &'d mut MaskedStorage<T>>"), ('N12', r'\bself\b', 'self_')],
         hints=[('start', None, 'broadcast use axiom_all_u32;')],
         ensures=[E('mask', 'forall|i: u32| r.0.bview().contains(i)'), E('same_storage', '*r.1 == *old(self_.0) && *final(r.1) == *final(self_.0)')])
    u.fn(EN, [ELH, 'fn get'], ret='r', props='C06 C04', free='entries_lend_get', key='lj_entries::get',
         rules=[('N12', r"fn get<'next>\(", "fn get<'a, 'b: 'a, 'd: 'a, 'next, T: Component>("), ('N12', r'Self::Value', "&'a mut Storage<'b, T, &'d mut MaskedStorage<T>>"),
                ('N8', r"Self::Type<'next>", "StorageEntry<'next, 'b, 'd, T>")],
         requires=[E('wf', 'old(value).data.wf()'), E('ents', 'ent_ok(old(value).entities)')],
         ensures=[E('occupied', 'old(value).data@.dom().contains(id) ==> (r matches StorageEntry::Occupied(o) && o.id == id && *o.storage == **old(value) && *final(o.storage) == **final(value))'),
                  E('vacant', '!old(value).data@.dom().contains(id) ==> (r matches StorageEntry::Vacant(v) && v.id == id && *v.storage == **old(value) && *final(v.storage) == **final(value))')])
    # BitAnd for a one-element tuple (the other arities are macro-generated: not under contract)
    BA = 'src/join/bit_and.rs'
    u.groups['bitand_1'] = dict(header='impl<A> BitAnd for (A,) where A: BitSetLike,', pre='    type Value = A;\n    spec fn and_view(&self) -> Set<u32> { self.0.bview() }\n', private=False)
    u.fn(BA, ['impl<A> BitAnd for (A,)', 'fn and'], props='C06', group='bitand_1', key='BitAnd(A,)::and',
         hint_obligations=[E('trait.and.view', 'the combined mask of a one-member join is the member mask', 'C06')])
    # ---- tuple members and BitAnd for arities 2 and 3: MACRO-GENERATED (define_open!, bitset_and!), taken from rustc's own
    # expansion of the crate on every run (pseudo file @expanded). N17: `let &mut (ref mut A, ref mut B) = v;` -> field borrows.
    X = '@expanded'
    N17_2 = [('N17', r'let &mut \(ref mut A, ref mut B\) = v;', 'let A = &mut v.0; let B = &mut v.1;')]
    N17_3 = [('N17', r'let &mut \(ref mut A, ref mut B, ref mut C\) = v;', 'let A = &mut v.0; let B = &mut v.1; let C = &mut v.2;')]
    u.groups['bitand_2'] = dict(header='impl<A, B> BitAnd for (A, B) where A: BitSetLike, B: BitSetLike,', private=False,
                                pre='    type Value = BitSetAnd<<<Self as Split>::Left as BitAnd>::Value, <<Self as Split>::Right as BitAnd>::Value>;\n    spec fn and_view(&self) -> Set<u32> { self.0.bview().intersect(self.1.bview()) }\n')
    u.fn(X, ['mod join', 'mod bit_and', 'impl<A, B> BitAnd for (A, B)', 'fn and'], props='C06', group='bitand_2', key='BitAnd(A,B)::and',
         hint_obligations=[E('trait.and.view', 'the combined mask of a pair is the intersection of the member masks', 'C06')])
    u.groups['bitand_3'] = dict(header='impl<A, B, C> BitAnd for (A, B, C) where A: BitSetLike, B: BitSetLike, C: BitSetLike,', private=False,
                                pre='    type Value = BitSetAnd<<<Self as Split>::Left as BitAnd>::Value, <<Self as Split>::Right as BitAnd>::Value>;\n    spec fn and_view(&self) -> Set<u32> { self.0.bview().intersect(self.1.bview().intersect(self.2.bview())) }\n')
    u.fn(X, ['mod join', 'mod bit_and', 'impl<A, B, C> BitAnd for (A, B, C)', 'fn and'], props='C06', group='bitand_3', key='BitAnd(A,B,C)::and',
         hint_obligations=[E('trait.and.view', 'the combined mask of a triple is the intersection of the member masks', 'C06')])
    # bit-set members (define_bit_join!): the set itself is the mask, the item is the index
    BITPRE = '''    type Type = Index;
    type Value = ();
    type Mask = %s;
    spec fn jmask(&self) -> Set<u32> { self.bview() }
    spec fn open_pre(&self) -> bool { true }
    spec fn get_pre(v: &Self::Value, id: Index) -> bool { true }
    spec fn get_post(ov: &Self::Value, id: Index, r: &Self::Type, nv: &Self::Value) -> bool { *r == id }
'''
    N9U = [('N9', r'\(_: &mut Self::Value, id: Index\)', '(_v: &mut Self::Value, id: Index)'),
           ('N9', r"\(_: &'next mut Self::Value, id: Index\)", "(_v: &'next mut Self::Value, id: Index)"),
           ('N8', r"<Self as LendJoinඞType<'next>>::T", 'Self::Type')]
    for (nm, gen, ty, bound) in [('bitset', '', 'BitSet', ''), ('bitset_ref', "'a", "&'a BitSet", ''),
                                 ('bitset_not', 'A', 'BitSetNot<A>', 'A: BitSetLike'), ('bitset_and', 'A, B', 'BitSetAnd<A, B>', 'A: BitSetLike, B: BitSetLike'),
                                 ('bitset_or', 'A, B', 'BitSetOr<A, B>', 'A: BitSetLike, B: BitSetLike')]:
        for trait in ('Join', 'LendJoin'):
            t = 'j' if trait == 'Join' else 'lj'
            g = '<%s>' % gen if gen else ''
            hdr = 'unsafe impl%s %s for %s%s' % (g, trait, ty, (' where ' + bound + ',') if bound else '')
            gname = '%s_%s' % (t, nm)
            u.groups[gname] = dict(header=hdr, pre=BITPRE % ty, private=False)
            tl = 'trait.' + ('lend_' if trait == 'LendJoin' else '')
            for f in ('open', 'get'):
                labels = ['mask', 'pre'] if f == 'open' else ['item', 'keeps']
                u.fn(X, ['mod bitset', 'impl%s %s for %s' % (g, trait, ty), 'fn ' + f], props='C06', group=gname, key='%s::%s' % (gname, f), rules=N9U,
                     hint_obligations=[E('%s%s.%s' % (tl, f, l), 'inherited postcondition of %s::%s (%s) for the bit-set member %s' % (trait, f, l, ty), 'C06') for l in labels])
    LET = 'ABCD'
    def tuple_pre(n, trait):
        ls = LET[:n]
        tys = ', '.join('%s::Type' % l for l in ls) + (',' if n == 1 else '')
        vals = ', '.join('%s::Value' % l for l in ls) + (',' if n == 1 else '')
        masks = ', '.join('%s::Mask' % l for l in ls) + (',' if n == 1 else '')
        jm = 'self.%d.jmask()' % (n - 1)
        for k in range(n - 2, -1, -1):
            jm = 'self.%d.jmask().intersect(%s)' % (k, jm)
        return ('    type Type = (%s);\n    type Value = (%s);\n    type Mask = <(%s) as BitAnd>::Value;\n' % (tys, vals, masks) +
                '    // the joined mask of a tuple is the intersection of the member masks; get is per-member get at the same index\n' +
                '    spec fn jmask(&self) -> Set<u32> { %s }\n' % jm +
                '    spec fn open_pre(&self) -> bool { %s }\n' % ' && '.join('self.%d.open_pre()' % k for k in range(n)) +
                '    spec fn get_pre(v: &Self::Value, id: Index) -> bool { %s }\n' % ' && '.join('%s::get_pre(&v.%d, id)' % (ls[k], k) for k in range(n)) +
                '    spec fn get_post(ov: &Self::Value, id: Index, r: &Self::Type, nv: &Self::Value) -> bool { %s }\n' % ' && '.join('%s::get_post(&ov.%d, id, &r.%d, &nv.%d)' % (ls[k], k, k, k) for k in range(n)))
    for n in (1, 2, 3, 4):
        ls = LET[:n]
        gen = ', '.join(ls)
        tup = '(%s%s)' % (gen, ',' if n == 1 else '')
        n17 = [('N17', r'let &mut \(' + ', '.join('ref mut %s' % l for l in ls) + (',' if n == 1 else '') + r'\) = v;',
                ' '.join('let %s = &mut v.%d;' % (l, k) for k, l in enumerate(ls))),
               ('N8', r"<Self as LendJoinඞType<'next>>::T", 'Self::Type')]
        for trait in ('Join', 'LendJoin'):
            t = 'j' if trait == 'Join' else 'lj'
            masks = '(%s%s)' % (', '.join('<%s as %s>::Mask' % (l, trait) for l in ls), ',' if n == 1 else '')
            hdr = 'unsafe impl<%s> %s for %s where %s, %s: BitAnd,' % (gen, trait, tup, ', '.join('%s: %s' % (l, trait) for l in ls), masks)
            gname = '%s_tuple%d' % (t, n)
            u.groups[gname] = dict(header=hdr, pre=tuple_pre(n, trait), private=False)
            tl = 'trait.' + ('lend_' if trait == 'LendJoin' else '')
            for f in ('open', 'get', 'is_unconstrained'):
                labels = dict(open=['mask', 'pre'], get=['item', 'keeps'], is_unconstrained=[])[f]
                u.fn(X, ['mod join', 'impl<%s> %s for %s' % (gen, trait, tup), 'fn ' + f], props='C06', group=gname, key='%s::%s' % (gname, f), rules=n17,
                     hint_obligations=[E('%s%s.%s' % (tl, f, l), 'inherited postcondition of %s::%s (%s) for the %d-tuple' % (trait, f, l, n), 'C06') for l in labels])
    # ---- resource-handle forwarding members (immutable_resource_join!): `&'a Fetch<'b, T>` where `&'a T` is a member — this is the
    # path every `(&entities, ..).join()` takes (`Entities<'a>` = `Read<'a, EntitiesRes>`). Fetch is modelled as `&'b T` (prelude), so
    # `self.deref()` is `&**self` (N10). Read / ReadExpect are further expansions of the SAME macro body and are not emitted a second
    # time (with the alias model they would be the same type).
    FWD = """    type Type = <&'a T as JOINTRAIT>::Type;
    type Value = <&'a T as JOINTRAIT>::Value;
    type Mask = <&'a T as JOINTRAIT>::Mask;
    // pure forwarding: everything is the wrapped member's
    spec fn jmask(&self) -> Set<u32> { <&'a T as JOINTRAIT>::jmask(&&***self) }
    spec fn open_pre(&self) -> bool { <&'a T as JOINTRAIT>::open_pre(&&***self) }
    spec fn get_pre(v: &Self::Value, id: Index) -> bool { <&'a T as JOINTRAIT>::get_pre(v, id) }
    spec fn get_post(ov: &Self::Value, id: Index, r: &Self::Type, nv: &Self::Value) -> bool { <&'a T as JOINTRAIT>::get_post(ov, id, r, nv) }
"""
    for trait in ('Join', 'LendJoin'):
        t = 'j' if trait == 'Join' else 'lj'
        gname = '%s_fetch' % t
        u.groups[gname] = dict(header="unsafe impl<'a, 'b, T> %s for &'a Fetch<'b, T> where &'a T: %s," % (trait, trait), pre=FWD.replace('JOINTRAIT', trait), private=False)
        tl = 'trait.' + ('lend_' if trait == 'LendJoin' else '')
        for f in ('open', 'get', 'is_unconstrained'):
            labels = dict(open=['mask', 'pre'], get=['item', 'keeps'], is_unconstrained=[])[f]
            u.fn(X, ['mod join', "impl<'a, 'b, T> %s for &'a Fetch<'b, T>" % trait, 'fn ' + f], props='C06', group=gname, key='%s::%s' % (gname, f),
                 rules=[('N10', r'self\.deref\(\)', '(&**self)'), ('N8', r"<Self as LendJoinඞType<'next>>::T", 'Self::Type')],
                 hint_obligations=[E('%s%s.%s' % (tl, f, l), 'inherited postcondition of %s::%s (%s) for the forwarding member &Fetch<T>' % (trait, f, l), 'C06') for l in labels])
    u.groups['bitand_4'] = dict(header='impl<A, B, C, D> BitAnd for (A, B, C, D) where A: BitSetLike, B: BitSetLike, C: BitSetLike, D: BitSetLike,', private=False,
                                pre='    type Value = BitSetAnd<<<Self as Split>::Left as BitAnd>::Value, <<Self as Split>::Right as BitAnd>::Value>;\n    spec fn and_view(&self) -> Set<u32> { self.0.bview().intersect(self.1.bview().intersect(self.2.bview().intersect(self.3.bview()))) }\n')
    u.fn(X, ['mod join', 'mod bit_and', 'impl<A, B, C, D> BitAnd for (A, B, C, D)', 'fn and'], props='C06', group='bitand_4', key='BitAnd(A,B,C,D)::and',
         hint_obligations=[E('trait.and.view', 'the combined mask of a 4-tuple is the intersection of the member masks', 'C06')])
    return u
