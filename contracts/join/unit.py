# Unit `join`: the sequential join machinery against a trait-level Join contract (C06, reduced)
from vx.unit import Unit, E

JM = 'src/join/mod.rs'
LJ = 'src/join/lend_join.rs'


def build():
    u = Unit('join', prelude=['prelude/std_nonzero.rs', 'prelude/hibitset.rs'], spec=['join/spec.rs'], files=[JM, LJ, 'src/join/maybe.rs', 'src/join/bit_and.rs'])
    u.struct(JM, ['struct JoinIter'])
    u.fn(JM, ['impl<J: Join> JoinIter<J>', 'fn new'], ret='r', props='C06 C20', key='JoinIter::new',
         ensures=[E('keys', 'r.keys.rem() == sorted_seq(j.jmask()) && r.keys.set_view() == j.jmask()'),
                  E('wf', 'r.wf()')],
         hints=[('start', None, 'broadcast use axiom_sorted_seq;'),
                ('before_tail', None, 'proof { let s = sorted_seq(j.jmask()); assert forall|k: int| 0 <= k < s.len() implies J::get_pre(&values, #[trigger] s[k]) by { assert(s.contains(s[k])); } }')])
    u.fn(JM, ['impl<J: Join> std::iter::Iterator for JoinIter<J>', 'fn next'], ret='r', props='C06 C20',
         impl_header='impl<J: Join> JoinIter<J>', key='JoinIter::next', n4c=True,
         requires=[E('wf', 'old(self).wf()')],
         ensures=[E('wf', 'final(self).wf()'),
                  E('end', 'old(self).keys.rem().len() == 0 ==> r is None'),
                  E('item', 'old(self).keys.rem().len() > 0 ==> r is Some && J::get_post(&old(self).values, old(self).keys.rem()[0], &r.unwrap(), &final(self).values)'),
                  E('advance', 'old(self).keys.rem().len() > 0 ==> final(self).keys.rem() == old(self).keys.rem().drop_first()'),
                  E('mask', 'final(self).keys.set_view() == old(self).keys.set_view()')])
    # ---- lending iterator
    EN = 'src/world/entity.rs'
    u.struct(EN, ['struct Generation'], derive='Clone, Copy, PartialEq, Eq, Structural')
    u.struct(EN, ['struct Entity'], derive='Clone, Copy, PartialEq, Eq, Structural')
    u.fn(EN, ['impl Entity', 'fn id'], ret='r', props='C06', ensures=[E('val', 'r == self.0')])
    u.struct(LJ, ['struct JoinLendIter'])
    LT = [('N8', r"LendJoinType<'_, J>", 'J::Type')]
    LI = 'impl<J: LendJoin> JoinLendIter<J>'
    u.fn(LJ, [LI, 'fn new'], ret='r', props='C06 C20', key='JoinLendIter::new', nth=None,
         ensures=[E('keys', 'r.keys.rem() == sorted_seq(j.jmask()) && r.keys.set_view() == j.jmask()'), E('wf', 'r.wf()')],
         hints=[('start', None, 'broadcast use axiom_sorted_seq;'),
                ('before_tail', None, 'proof { let s = sorted_seq(j.jmask()); assert forall|k: int| 0 <= k < s.len() implies j.jmask().contains(#[trigger] s[k]) by { assert(s.contains(s[k])); } }')])
    u.fn(LJ, [LI, 'fn next'], ret='r', props='C06 C20', key='JoinLendIter::next', rules=LT, n4c=True,
         requires=[E('wf', 'old(self).wf()')],
         ensures=[E('wf', 'final(self).wf()'),
                  E('end', 'old(self).keys.rem().len() == 0 ==> r is None'),
                  E('item', 'old(self).keys.rem().len() > 0 ==> r is Some && J::get_post(&old(self).values, old(self).keys.rem()[0], &r.unwrap(), &final(self).values)'),
                  E('advance', 'old(self).keys.rem().len() > 0 ==> final(self).keys.rem() == old(self).keys.rem().drop_first()'),
                  E('mask', 'final(self).keys.set_view() == old(self).keys.set_view()')])
    u.fn(LJ, [LI, 'fn get'], ret='r', props='C03 C06', key='JoinLendIter::get', rules=LT,
         requires=[E('wf', 'old(self).wf()')],
         ensures=[E('wf', 'final(self).wf()'),
                  E('stale', '!entities.alive_spec(entity) ==> r is None', 'C03'),
                  E('rule', 'r is Some <==> (old(self).keys.set_view().contains(entity.0) && entities.alive_spec(entity))', 'C06 C03'),
                  E('item', 'r is Some ==> J::get_post(&old(self).values, entity.0, &r.unwrap(), &final(self).values)'),
                  E('keys', 'final(self).keys == old(self).keys')])
    u.fn(LJ, [LI, 'fn get_unchecked'], ret='r', props='C06', key='JoinLendIter::get_unchecked', rules=LT,
         requires=[E('wf', 'old(self).wf()')],
         ensures=[E('wf', 'final(self).wf()'),
                  E('rule', 'r is Some <==> old(self).keys.set_view().contains(index)'),
                  E('item', 'r is Some ==> J::get_post(&old(self).values, index, &r.unwrap(), &final(self).values)'),
                  E('keys', 'final(self).keys == old(self).keys')])
    return u
