    type Mask = BitSetNot<&'a BitSet>;
    type Type = ();
    type Value = ();
    // negated member: exactly the indices NOT in the storage's mask
    spec fn jmask(&self) -> Set<u32> { all_u32() - self.0@ }
    spec fn open_pre(&self) -> bool { true }
    spec fn get_pre(v: &Self::Value, id: Index) -> bool { true }
    spec fn get_post(ov: &Self::Value, id: Index, r: &Self::Type, nv: &Self::Value) -> bool { true }
