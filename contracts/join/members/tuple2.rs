    type Type = (A::Type, B::Type);
    type Value = (A::Value, B::Value);
    type Mask = <(A::Mask, B::Mask) as BitAnd>::Value;
    // the joined mask of a pair is the intersection; get is per-member get at the same index
    spec fn jmask(&self) -> Set<u32> { self.0.jmask().intersect(self.1.jmask()) }
    spec fn open_pre(&self) -> bool { self.0.open_pre() && self.1.open_pre() }
    spec fn get_pre(v: &Self::Value, id: Index) -> bool { A::get_pre(&v.0, id) && B::get_pre(&v.1, id) }
    spec fn get_post(ov: &Self::Value, id: Index, r: &Self::Type, nv: &Self::Value) -> bool {
        A::get_post(&ov.0, id, &r.0, &nv.0) && B::get_post(&ov.1, id, &r.1, &nv.1)
    }
