    type Mask = &'a BitSet;
    type Type = &'a T;
    type Value = &'a DenseVecStorage<T>;
    spec fn jmask(&self) -> Set<u32> { self.mask@ }
    spec fn open_pre(&self) -> bool { self.wf() }
    spec fn get_pre(v: &Self::Value, id: Index) -> bool { v.has(id) }
    // each accumulated amount is read as stored
    spec fn get_post(ov: &Self::Value, id: Index, r: &Self::Type, nv: &Self::Value) -> bool { **r == ov.val(id) && *nv == *ov }
