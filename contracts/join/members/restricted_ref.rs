    type Mask = &'rf BitSet;
    type Type = PairedStorageRead<'rf, C>;
    type Value = (&'rf C::Storage, &'rf Fetch<'rf, EntitiesRes>, &'rf BitSet);
    // a restricted view joins over exactly the storage's own mask
    spec fn jmask(&self) -> Set<u32> { self.bitset@ }
    spec fn open_pre(&self) -> bool {
        &&& forall|i: Index| #![trigger self.bitset@.contains(i)] #![trigger self.data.has(i)] self.bitset@.contains(i) <==> self.data.has(i)
        &&& ent_ok(*self.entities)
    }
    spec fn get_pre(v: &Self::Value, id: Index) -> bool {
        &&& forall|i: Index| #![trigger v.2@.contains(i)] #![trigger v.0.has(i)] v.2@.contains(i) <==> v.0.has(i)
        &&& ent_ok(*v.1)
        &&& v.2@.contains(id)
    }
    // the item remembers its index and the very same storage / mask / entities (so PairedStorageRead::get's precondition holds)
    spec fn get_post(ov: &Self::Value, id: Index, r: &Self::Type, nv: &Self::Value) -> bool {
        r.index == id && r.storage == ov.0 && r.bitset == ov.2 && r.entities == ov.1 && *nv == *ov
    }
