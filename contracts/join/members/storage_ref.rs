    type Mask = &'a BitSet;
    type Type = &'a T;
    type Value = &'a T::Storage;
    spec fn jmask(&self) -> Set<u32> { self.data.mask@ }
    spec fn open_pre(&self) -> bool { self.data.wf() }
    spec fn get_pre(v: &Self::Value, id: Index) -> bool { v.has(id) }
    // the item is exactly the component stored for that index (== a direct lookup), nothing changes
    spec fn get_post(ov: &Self::Value, id: Index, r: &Self::Type, nv: &Self::Value) -> bool { **r == ov.val(id) && *nv == *ov }
