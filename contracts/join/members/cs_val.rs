    type Mask = BitSet;
    type Type = T;
    type Value = DenseVecStorage<T>;
    spec fn jmask(&self) -> Set<u32> { self.mask@ }
    spec fn open_pre(&self) -> bool { self.wf() }
    spec fn get_pre(v: &Self::Value, id: Index) -> bool { v.has(id) }
    // consuming the change set hands each accumulated amount out once: the slot is gone afterwards, all others untouched
    spec fn get_post(ov: &Self::Value, id: Index, r: &Self::Type, nv: &Self::Value) -> bool {
        &&& *r == ov.val(id)
        &&& !nv.has(id)
        &&& forall|j: Index| #![trigger nv.has(j)] j != id ==> nv.has(j) == ov.has(j)
        &&& forall|j: Index| #![trigger nv.val(j)] j != id ==> nv.val(j) == ov.val(j)
    }
