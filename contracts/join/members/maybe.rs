    type Mask = BitSetAll;
    type Type = Option<<T as JOINTRAIT>::Type>;
    type Value = (<T as JOINTRAIT>::Mask, <T as JOINTRAIT>::Value);
    // optional member: never constrains the intersection; presence is decided per index from the inner mask
    spec fn jmask(&self) -> Set<u32> { all_u32() }
    spec fn open_pre(&self) -> bool { self.0.open_pre() }
    spec fn get_pre(v: &Self::Value, id: Index) -> bool { v.0.bview().contains(id) ==> T::get_pre(&v.1, id) }
    spec fn get_post(ov: &Self::Value, id: Index, r: &Self::Type, nv: &Self::Value) -> bool {
        &&& nv.0.bview() == ov.0.bview()
        &&& *r is Some <==> ov.0.bview().contains(id)
        &&& *r is Some ==> T::get_post(&ov.1, id, &r->Some_0, &nv.1)
        &&& *r is None ==> nv.1 == ov.1
    }
