    type Mask = BitSet;
    type Type = T;
    type Value = &'a mut MaskedStorage<T>;
    spec fn jmask(&self) -> Set<u32> { self.data.mask@ }
    spec fn open_pre(&self) -> bool { self.data.wf() }
    // each index of the cloned mask can be drained once: it must still be present
    spec fn get_pre(v: &Self::Value, id: Index) -> bool { v.wf() && v@.dom().contains(id) }
    spec fn get_post(ov: &Self::Value, id: Index, r: &Self::Type, nv: &Self::Value) -> bool {
        *r == ov@[id] && nv@ == ov@.remove(id) && nv.wf()
    }
