    type Mask = BitSetOr<&'a BitSet, &'a AtomicBitSet>;
    type Type = Entity;
    type Value = &'a EntitiesRes;
    // the entities member: merged-alive OR created-awaiting-maintain
    spec fn jmask(&self) -> Set<u32> { self.alloc.alive@ + self.alloc.raised@ }
    spec fn open_pre(&self) -> bool { self.alloc.wf() && self.alloc.headroom_n(2) }
    spec fn get_pre(v: &Self::Value, id: Index) -> bool { v.alloc.wf() && v.alloc.headroom_n(2) && v.alloc.occ(id) }
    // the item is the index's current handle (the one is_alive accepts)
    spec fn get_post(ov: &Self::Value, id: Index, r: &Self::Type, nv: &Self::Value) -> bool {
        r.0 == id && r.1.0@ == ov.alloc.cur_gen(id) && *nv == *ov
    }
