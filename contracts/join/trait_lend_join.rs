// Trait-level contract of `LendJoin` (src/join/lend_join.rs). N8: the GAT `Type<'next>` is collapsed to a plain associated type (Verus has no GAT support).

    type Type;
    type Value;
    type Mask: BitSetLike;
    spec fn jmask(&self) -> Set<u32>;
    spec fn get_pre(v: &Self::Value, id: Index) -> bool;
    spec fn get_post(ov: &Self::Value, id: Index, r: &Self::Type, nv: &Self::Value) -> bool;

    spec fn open_pre(&self) -> bool;

    unsafe fn open(self) -> (r: (Self::Mask, Self::Value))
        requires self.open_pre(),
        ensures
            /*@L:trait.lend_open.mask*/ r.0.bview() == self.jmask() /*@E*/,
            /*@L:trait.lend_open.pre*/ forall|id: Index| #![trigger Self::get_pre(&r.1, id)] self.jmask().contains(id) ==> Self::get_pre(&r.1, id) /*@E*/;

    unsafe fn get<'next>(value: &'next mut Self::Value, id: Index) -> (r: Self::Type)
        requires Self::get_pre(old(value), id),
        ensures
            /*@L:trait.lend_get.item*/ Self::get_post(old(value), id, &r, final(value)) /*@E*/,
            /*@L:trait.lend_get.keeps*/ forall|j: Index| #![trigger Self::get_pre(final(value), j)] j != id && Self::get_pre(old(value), j) ==> Self::get_pre(final(value), j) /*@E*/;

