// Trait-level contract of `Join` / `LendJoin` (src/join/mod.rs:24-51, lend_join.rs:7-37) and the iterator invariants.
// N8: LendJoin's generic associated type `Type<'next>` is collapsed to a plain associated type.
pub type Index = u32;

pub trait Join: Sized {
    type Type;
    type Value;
    type Mask: BitSetLike;
    // the set of indices this member contributes to the intersection
    spec fn jmask(&self) -> Set<u32>;
    // `get` may be called for id on value v  (the "id is in the mask that open returned" obligation)
    spec fn get_pre(v: &Self::Value, id: Index) -> bool;
    // what `get` returns for id
    spec fn get_post(ov: &Self::Value, id: Index, r: &Self::Type, nv: &Self::Value) -> bool;

    unsafe fn open(self) -> (r: (Self::Mask, Self::Value))
        ensures
            /*@L:trait.open.mask*/ r.0.bview() == self.jmask() /*@E*/,
            /*@L:trait.open.pre*/ forall|id: Index| #![trigger Self::get_pre(&r.1, id)] self.jmask().contains(id) ==> Self::get_pre(&r.1, id) /*@E*/;

    unsafe fn get(value: &mut Self::Value, id: Index) -> (r: Self::Type)
        requires Self::get_pre(old(value), id),
        ensures
            /*@L:trait.get.item*/ Self::get_post(old(value), id, &r, final(value)) /*@E*/,
            /*@L:trait.get.keeps*/ forall|j: Index| #![trigger Self::get_pre(final(value), j)] Self::get_pre(old(value), j) ==> Self::get_pre(final(value), j) /*@E*/;

    fn is_unconstrained() -> bool;
}

impl<J: Join> JoinIter<J> {
    // the iterator still has to visit exactly `rem`, ascending, and may call get for each of them
    pub open spec fn wf(&self) -> bool {
        forall|k: int| 0 <= k < self.keys.rem().len() ==> J::get_pre(&self.values, #[trigger] self.keys.rem()[k])
    }
}

// C06: the indices handed to `get` over a whole iteration are exactly the members of the joined mask, ascending, once each
//@props C06 C20
pub proof fn lemma_visit_order(m: Set<u32>)
    ensures
        forall|a: int, b: int| 0 <= a < b < sorted_seq(m).len() ==> sorted_seq(m)[a] < sorted_seq(m)[b],
        forall|i: u32| m.contains(i) <==> sorted_seq(m).contains(i),
        sorted_seq(m).no_duplicates(),
{
    broadcast use axiom_sorted_seq;
    assert forall|a: int, b: int| 0 <= a < sorted_seq(m).len() && 0 <= b < sorted_seq(m).len() && a != b implies sorted_seq(m)[a] != sorted_seq(m)[b] by {
        if a < b { assert(sorted_seq(m)[a] < sorted_seq(m)[b]); } else { assert(sorted_seq(m)[b] < sorted_seq(m)[a]); }
    }
}

pub trait LendJoin: Sized {
    type Type;
    type Value;
    type Mask: BitSetLike;
    spec fn jmask(&self) -> Set<u32>;
    spec fn get_pre(v: &Self::Value, id: Index) -> bool;
    spec fn get_post(ov: &Self::Value, id: Index, r: &Self::Type, nv: &Self::Value) -> bool;

    unsafe fn open(self) -> (r: (Self::Mask, Self::Value))
        ensures
            /*@L:trait.lend_open.mask*/ r.0.bview() == self.jmask() /*@E*/,
            /*@L:trait.lend_open.pre*/ forall|id: Index| #![trigger Self::get_pre(&r.1, id)] self.jmask().contains(id) ==> Self::get_pre(&r.1, id) /*@E*/;

    unsafe fn get(value: &mut Self::Value, id: Index) -> (r: Self::Type)
        requires Self::get_pre(old(value), id),
        ensures
            /*@L:trait.lend_get.item*/ Self::get_post(old(value), id, &r, final(value)) /*@E*/,
            /*@L:trait.lend_get.keeps*/ forall|j: Index| #![trigger Self::get_pre(final(value), j)] Self::get_pre(old(value), j) ==> Self::get_pre(final(value), j) /*@E*/;

    fn is_unconstrained() -> bool;
}
pub trait RepeatableLendGet: LendJoin {}

impl<J: LendJoin> JoinLendIter<J> {
    // every member of the joined mask may be fetched (repeatably), and the remaining keys are a part of it
    pub open spec fn wf(&self) -> bool {
        &&& forall|i: Index| #![trigger J::get_pre(&self.values, i)] self.keys.set_view().contains(i) ==> J::get_pre(&self.values, i)
        &&& forall|k: int| 0 <= k < self.keys.rem().len() ==> self.keys.set_view().contains(#[trigger] self.keys.rem()[k])
    }
}

// TRUSTED here, PROVED in unit alloc: EntitiesRes::is_alive(e) == alive_spec(e)
#[verifier::external_body]
pub struct EntitiesRes { x: u8 }
impl EntitiesRes {
    pub uninterp spec fn alive_spec(&self, e: Entity) -> bool;
    #[verifier::external_body]
    pub fn is_alive(&self, e: Entity) -> (r: bool)
        ensures r == self.alive_spec(e)
    { unimplemented!() }
}
pub type Entities<'a> = &'a EntitiesRes;
