// Trait-level contract of `Join` / `LendJoin` (src/join/mod.rs:24-51, lend_join.rs:7-37) and the iterator invariants.
// N8: LendJoin's generic associated type `Type<'next>` is collapsed to a plain associated type.

impl<J: Join> JoinIter<J> {
    // the iterator still has to visit exactly `rem`, ascending, and may call get for each of them
    pub open spec fn wf(&self) -> bool {
        &&& forall|k: int| 0 <= k < self.keys.rem().len() ==> J::get_pre(&self.values, #[trigger] self.keys.rem()[k])
        &&& forall|a: int, b: int| 0 <= a < b < self.keys.rem().len() ==> self.keys.rem()[a] < self.keys.rem()[b]
    }
}

// C06: the indices handed to `get` over a whole iteration are exactly the members of the joined mask, ascending, once each
//@props C06 C20
pub proof fn lemma_visit_order(m: Set<u32>)
    ensures
        forall|a: int, b: int| 0 <= a < b < sorted_seq(m).len() ==> sorted_seq(m)[a] < sorted_seq(m)[b],
        forall|i: u32| m.contains(i) <==> sorted_seq(m).contains(i),
        sorted_seq(m).no_duplicates(),
{
    broadcast use axiom_sorted_seq;
    assert forall|a: int, b: int| 0 <= a < sorted_seq(m).len() && 0 <= b < sorted_seq(m).len() && a != b implies sorted_seq(m)[a] != sorted_seq(m)[b] by {
        if a < b { assert(sorted_seq(m)[a] < sorted_seq(m)[b]); } else { assert(sorted_seq(m)[b] < sorted_seq(m)[a]); }
    }
}

// members whose `get` may be called again for the same index (JoinLendIter::get / get_unchecked)
pub trait RepeatableLendGet: LendJoin {
    proof fn lemma_repeat(ov: &Self::Value, id: Index, r: &Self::Type, nv: &Self::Value)
        requires Self::get_pre(ov, id), Self::get_post(ov, id, r, nv),
        ensures Self::get_pre(nv, id);
}

impl<J: LendJoin> JoinLendIter<J> {
    // for `next`: the remaining keys ascend strictly and each may be fetched
    pub open spec fn wf(&self) -> bool {
        &&& forall|k: int| 0 <= k < self.keys.rem().len() ==> J::get_pre(&self.values, #[trigger] self.keys.rem()[k])
        &&& forall|a: int, b: int| 0 <= a < b < self.keys.rem().len() ==> self.keys.rem()[a] < self.keys.rem()[b]
    }
    // for `get` / `get_unchecked` (repeatable members only): every member of the joined mask may be fetched
    pub open spec fn wf_all(&self) -> bool {
        forall|i: Index| #![trigger J::get_pre(&self.values, i)] self.keys.set_view().contains(i) ==> J::get_pre(&self.values, i)
    }
}
pub open spec fn repeatable<J: LendJoin>() -> bool {
    forall|ov: &J::Value, id: Index, r: &J::Type, nv: &J::Value| J::get_pre(ov, id) && #[trigger] J::get_post(ov, id, r, nv) ==> J::get_pre(nv, id)
}


// trait BitAnd (src/join/bit_and.rs:4-7): the combined mask of a tuple of member masks is their intersection
pub trait BitAnd {
    type Value: BitSetLike;
    spec fn and_view(&self) -> Set<u32>;
    fn and(self) -> (r: Self::Value)
        ensures /*@L:trait.and.view*/ r.bview() == self.and_view() /*@E*/;
}

// ---- repeatability of the members that declare it (src: `unsafe impl RepeatableLendGet for ...`): ghost-only impls
impl<'a, 'e, 'd, T: Component> RepeatableLendGet for &'a Storage<'e, T, &'d MaskedStorage<T>> {
    proof fn lemma_repeat(ov: &Self::Value, id: Index, r: &Self::Type, nv: &Self::Value) {}
}
impl<'a> RepeatableLendGet for AntiStorage<'a> {
    proof fn lemma_repeat(ov: &Self::Value, id: Index, r: &Self::Type, nv: &Self::Value) {}
}
impl<'a> RepeatableLendGet for &'a EntitiesRes {
    proof fn lemma_repeat(ov: &Self::Value, id: Index, r: &Self::Type, nv: &Self::Value) {}
}
impl<T: RepeatableLendGet> RepeatableLendGet for MaybeJoin<T> {
    proof fn lemma_repeat(ov: &Self::Value, id: Index, r: &Self::Type, nv: &Self::Value) {
        if ov.0.bview().contains(id) { T::lemma_repeat(&ov.1, id, &r->Some_0, &nv.1); }
    }
}
