// Specification vocabulary for the world-level deletion paths (src/world/world_ext.rs, src/world/mod.rs).

impl World {
    pub open spec fn wf(&self) -> bool { self.ents().alloc.wf() }
    pub open spec fn abs(&self) -> AState { self.ents().alloc.abs() }
    // W1: no listed storage holds a component for an unoccupied index
    pub open spec fn masks_within_occ(&self) -> bool {
        forall|s: StorageId, i: u32| #![trigger self.smask(s).contains(i)] self.listed(s) && self.smask(s).contains(i) ==> self.abs().occ(i)
    }
    // every listed storage lost exactly the indices of `gone`, every other storage/index is untouched
    pub open spec fn purged(&self, o: &World, gone: Seq<u32>) -> bool {
        forall|s: StorageId| #![trigger self.smask(s)] #![trigger self.listed(s)] #![trigger self.has_storage(s)]
            self.has_storage(s) == o.has_storage(s) && self.listed(s) == o.listed(s)
            && self.smask(s) == (if o.listed(s) { o.smask(s) - gone.to_set() } else { o.smask(s) })
    }
}

// C05 corollary: after an immediate batch deletion + purge, W1 still holds (so a reused index starts empty)
//@props C05
pub proof fn lemma_w1_after_kill(o: &World, n: &World, d: Seq<Entity>, k: nat)
    requires
        o.wf(), o.masks_within_occ(), k <= d.len(),
        o.abs().kill_ok_upto(d, k),
        n.abs().core_eq(o.abs().kill_fold(d, k)),
        n.purged(o, ids(d.subrange(0, k as int))),
    ensures n.masks_within_occ(),
{
    lemma_kill_fold_frame(o.abs(), d, k);
    let f = o.abs().kill_fold(d, k);
    let gone = ids(d.subrange(0, k as int));
    assert forall|s: StorageId, i: u32| #![trigger n.smask(s).contains(i)] n.listed(s) && n.smask(s).contains(i) implies n.abs().occ(i) by {
        assert(n.smask(s) == o.smask(s) - gone.to_set());
        assert(o.smask(s).contains(i) && !gone.to_set().contains(i));
        assert(o.abs().occ(i));
        lemma_ids_prefix(d, k, i);
        assert(!gone.contains(i));
        assert(!in_prefix(d, k, i));
        assert(f.alive.contains(i) == o.abs().alive.contains(i));
        assert(f.raised.contains(i) == o.abs().raised.contains(i));
        assert(n.abs().alive.contains(i) == f.alive.contains(i));
        assert(n.abs().raised.contains(i) == f.raised.contains(i));
    }
}

// ... and after maintain's merge + purge
//@props C05
pub proof fn lemma_w1_after_merge(o: &World, n: &World, out: Seq<Entity>)
    requires
        o.wf(), o.masks_within_occ(),
        n.abs().core_eq(o.abs().merged()),
        out.map_values(|e: Entity| hid(e)) =~= o.abs().merged_out(),
        n.purged(o, ids(out)),
    ensures n.masks_within_occ(),
{
    broadcast use axiom_sorted_seq;
    let ks = sorted_seq(o.abs().killed);
    assert forall|s: StorageId, i: u32| #![trigger n.smask(s).contains(i)] n.listed(s) && n.smask(s).contains(i) implies n.abs().occ(i) by {
        assert(n.smask(s) == o.smask(s) - ids(out).to_set());
        assert(o.smask(s).contains(i) && !ids(out).to_set().contains(i));
        assert(o.abs().occ(i));
        if o.abs().killed.contains(i) {
            assert(ks.contains(i));
            let x = choose|x: int| 0 <= x < ks.len() && ks[x] == i;
            lemma_out_ids(out, o.abs());
            assert(ids(out)[x] == i);
            assert(ids(out).contains(i));
        }
        assert(n.abs().alive.contains(i));
    }
}

// a creation never breaks W1: the index it takes was unoccupied, hence in no listed mask ("a reused index starts empty")
//@props C05
pub proof fn lemma_created_index_is_empty(w: &World, s: StorageId)
    requires w.wf(), w.ents().alloc.headroom(), w.masks_within_occ(), w.listed(s), ainv(w.abs()), w.abs().max_id < 0x100_0000 - 1,
    ensures !w.smask(s).contains(w.abs().next_index()),
{
    lemma_step_inv_create(w.abs(), true);
}

// the handles merge() returns carry exactly the killed indices, ascending
pub proof fn lemma_out_ids(out: Seq<Entity>, s: AState)
    requires out.map_values(|e: Entity| hid(e)) =~= s.merged_out(),
    ensures ids(out) =~= sorted_seq(s.killed), out.len() == sorted_seq(s.killed).len(),
{
    let ks = sorted_seq(s.killed);
    let m = out.map_values(|e: Entity| hid(e));
    assert(m.len() == out.len());
    assert(s.merged_out().len() == ks.len());
    assert forall|j: int| 0 <= j < out.len() implies ids(out)[j] == ks[j] by {
        assert(m[j] == hid(out[j]));
        assert(s.merged_out()[j] == (ks[j], s.hwv(ks[j])));
    }
}

// a batch of one handle
pub proof fn lemma_single_kill(s: AState, d: Seq<Entity>, k: nat)
    requires d.len() == 1, s.kill_stops_at(d, k),
    ensures
        k <= 1,
        (k == 1) == s.current(d[0]),
        s.kill_fold(d, k) == (if k == 1 { s.kill_one(d[0]) } else { s }),
        ids(d.subrange(0, k as int)) == (if k == 1 { seq![d[0].0] } else { Seq::<u32>::empty() }),
{
    assert(s.kill_fold(d, 0) == s);
    assert(s.kill_fold(d, 1) == s.kill_fold(d, 0).kill_one(d[0]));
    if k == 1 { assert(s.kill_fold(d, 0).current(d[0])); }
    assert(ids(d.subrange(0, 1)) =~= seq![d[0].0]);
    assert(ids(d.subrange(0, 0)) =~= Seq::<u32>::empty());
}

pub proof fn lemma_purge_nothing(w: &World, o: &World, gone: Seq<u32>)
    requires gone.len() == 0, w.same_storages(o),
    ensures w.purged(o, gone),
{
    assert(gone.to_set() =~= Set::<u32>::empty());
    assert forall|s: StorageId| #![trigger w.smask(s)] #![trigger w.listed(s)] #![trigger w.has_storage(s)]
            w.has_storage(s) == o.has_storage(s) && w.listed(s) == o.listed(s)
            && w.smask(s) == (if o.listed(s) { o.smask(s) - gone.to_set() } else { o.smask(s) }) by {
        assert(o.smask(s) - gone.to_set() =~= o.smask(s));
    }
}

// delete_all: the handles collected from the entities join are all current, pairwise on distinct indices,
// so the batch kill runs to the end and nothing stays occupied
//@props C02 C01
pub proof fn lemma_delete_all(a: &Allocator, d: Seq<Entity>)
    requires
        a.wf(), a.headroom(),
        d.len() == sorted_seq(a.alive@ + a.raised@).len(),
        forall|j: int| 0 <= j < d.len() ==> (#[trigger] d[j]).0 == sorted_seq(a.alive@ + a.raised@)[j] && d[j].1.0@ == a.cur_gen(d[j].0),
    ensures
        all_legit(a, d),
        a.abs().kill_stops_at(d, d.len()),
        forall|i: u32| !(#[trigger] a.abs().kill_fold(d, d.len()).occ(i)),
{
    broadcast use axiom_sorted_seq;
    let s = a.abs();
    let occ = a.alive@ + a.raised@;
    let ss = sorted_seq(occ);
    assert forall|j: int| 0 <= j < d.len() implies s.current(#[trigger] d[j]) && s.legit(d[j]) by {
        assert(ss.contains(ss[j]));
        assert(occ.contains(d[j].0));
        assert(a.occ(d[j].0));
        lemma_cur_gen_is_hw(a, d[j].0);
        assert(s.hwv(d[j].0) == a.hw(d[j].0));
    }
    // every prefix: the next handle is still current because its index is not among the earlier (strictly smaller) ones
    assert forall|n: nat| n < d.len() implies (#[trigger] s.kill_fold(d, n)).current(d[n as int]) by {
        lemma_kill_fold_frame(s, d, n);
        let e = d[n as int];
        assert(!in_prefix(d, n, e.0)) by {
            if in_prefix(d, n, e.0) {
                let k = choose|k: int| 0 <= k < n && k < d.len() && (#[trigger] d[k]).0 == e.0;
                assert(ss[k] < ss[n as int]);
            }
        }
        assert(s.current(e));
        let f = s.kill_fold(d, n);
        assert(f.alive.contains(e.0) == s.alive.contains(e.0));
        assert(f.raised.contains(e.0) == s.raised.contains(e.0));
        assert(f.hwv(e.0) == s.hwv(e.0));
    }
    lemma_kill_fold_frame(s, d, d.len());
    let f = s.kill_fold(d, d.len());
    assert forall|i: u32| !(#[trigger] f.occ(i)) by {
        if s.occ(i) {
            assert(occ.contains(i));
            assert(ss.contains(i));
            let k = choose|k: int| 0 <= k < ss.len() && ss[k] == i;
            assert(d[k].0 == i);
            assert(in_prefix(d, d.len(), i));
        }
        assert(f.alive.contains(i) == (s.alive.contains(i) && !in_prefix(d, d.len(), i)));
        assert(f.raised.contains(i) == (s.raised.contains(i) && !in_prefix(d, d.len(), i)));
    }
}

// C09 (reduced): "executed so far ++ still waiting" only ever grows at its end, so whatever was executed or queued is
// executed exactly once, in queue order
pub open spec fn pending(w: &World) -> Seq<int> { w.lazy_log() + w.lazy_queue() }
//@props C09
pub proof fn lemma_pending_step(log: Seq<int>, q: Seq<int>, q2: Seq<int>)
    requires q.len() > 0, q.drop_first().is_prefix_of(q2),
    ensures (log + q).is_prefix_of(log.push(q[0]) + q2),
{
    let a = log + q;
    let b = log.push(q[0]) + q2;
    assert(a.len() <= b.len());
    assert forall|i: int| 0 <= i < a.len() implies a[i] == b[i] by {
        if i < log.len() { } else if i == log.len() { assert(a[i] == q[0]); } else {
            let j = i - log.len();
            assert(a[i] == q[j]);
            assert(q[j] == q.drop_first()[j - 1]);
            assert(q.drop_first()[j - 1] == q2[j - 1]);
            assert(b[i] == q2[i - log.len() - 1]);
        }
    }
    assert(a =~= b.subrange(0, a.len() as int));
}
