# Unit `world`: alloc + the World-level creation/deletion paths (C01, C02, C05, C17, C20)
import importlib.util, os
from vx.unit import Unit, E

_here = os.path.dirname(os.path.abspath(__file__))
_spec = importlib.util.spec_from_file_location('unit_alloc_base', os.path.join(_here, '..', 'alloc', 'unit.py'))
_alloc = importlib.util.module_from_spec(_spec)
_spec.loader.exec_module(_alloc)

W = 'src/world/world_ext.rs'
M = 'src/world/mod.rs'
L = 'src/world/lazy.rs'
WIMPL = ('N12', r'impl WorldExt for World', 'impl World')


def build():
    u = _alloc.build()
    u.name = 'world'
    u.prelude = u.prelude + [('prelude/shred_world.rs', 'private')]
    u.spec = u.spec + ['world/spec.rs']
    u.files = u.files + [W, M, L]
    IH = 'impl World'
    # ---- immediate creation
    u.struct(M, ['struct CreateIter'])
    u.fn(M, ["impl<'a> Iterator for CreateIter<'a>", 'fn next'], ret='r', props='C01 C02 C17 C20',
         impl_header="impl<'a> CreateIter<'a>", key='CreateIter::next',
         requires=[E('wf', 'old(self).0.alloc.wf()'), E('headroom', 'old(self).0.alloc.headroom()')],
         ensures=[E('some', 'r is Some'),
                  E('wf', 'final(self).0.alloc.wf()', 'C01 C02'),
                  E('handle', 'hid(r.unwrap()) == old(self).0.alloc.abs().created()', 'C01 C20'),
                  E('state', 'final(self).0.alloc.abs() == old(self).0.alloc.abs().create_now()', 'C01 C02 C17 C20'),
                  E('complete', 'old(self).0.alloc.wf_complete() ==> final(self).0.alloc.wf_complete()', 'C17')])
    # ---- World::create_entity* / create_iter and the immediate builder (N3: the builder holds `&mut World`)
    u.struct(M, ['struct EntityBuilder'], rules=[('N3', r"&'a World", "&'a mut World")])
    CE_ENS = [E('handle', 'hid(r.entity) == old(self).abs().created()', 'C01 C20'),
              E('unbuilt', '!r.built', 'C02'),
              E('state', 'r.world.abs() == old(self).abs().create_now() && r.world.wf()', 'C01 C02 C17 C20'),
              E('link', '*final(r.world) == *final(self)', 'C01')]
    u.fn(W, ['impl WorldExt for World', 'fn create_entity_unchecked'], ret='r', props='C01 C02 C17 C20', impl_header=IH, key='World::create_entity_unchecked',
         mut_self=True, rules=[('N1', r'-> EntityBuilder\b', "-> EntityBuilder<'_>")],
         requires=[E('wf', 'old(self).wf()'), E('headroom', 'old(self).ents().alloc.headroom()')], ensures=CE_ENS)
    u.fn(W, ['impl WorldExt for World', 'fn create_entity'], ret='r', props='C01 C02 C17 C20', impl_header=IH, key='World::create_entity',
         rules=[('N1', r'-> EntityBuilder\b', "-> EntityBuilder<'_>")],
         requires=[E('wf', 'old(self).wf()'), E('headroom', 'old(self).ents().alloc.headroom()')], ensures=CE_ENS)
    u.fn(W, ['impl WorldExt for World', 'fn create_iter'], ret='r', props='C01', impl_header=IH, key='World::create_iter',
         rules=[('N1', r'-> CreateIter\b', "-> CreateIter<'_>")],
         ensures=[E('borrows_entities', '*r.0 == old(self).ents() && final(self).ents() == *final(r.0)')])
    # C05: an unfinished builder must be retired through the DEFERRED path (so that maintain purges the components attached with
    # `.with(..)`); an immediate kill without a purge leaves them for the next user of the index
    u.fn(M, ["impl<'a> Drop for EntityBuilder<'a>", 'fn drop'], props='C02 C05', impl_header="impl<'a> EntityBuilder<'a>", key='EntityBuilder::drop',
         rules=[('N10', r'\.read_resource::<EntitiesRes>\(\)', '.entities_mut()')],
         requires=[E('wf', 'old(self).world.wf()'), E('headroom', 'old(self).world.ents().alloc.headroom_n(2)'),
                   E('own', '!old(self).built ==> old(self).world.abs().current(old(self).entity)')],
         ensures=[E('wf', 'final(self).world.wf()', 'C01 C02'),
                  E('state', 'final(self).world.abs() == (if old(self).built { old(self).world.abs() } else { old(self).world.abs().defer_kill(old(self).entity) })')])
    # ---- deferred creation through the lazy builder
    u.struct(L, ['struct LazyBuilder'])
    u.fn(L, ['impl LazyUpdate', 'fn create_entity'], ret='r', props='C01 C02 C17 C20', mut_params=['ent'],
         rules=[('N1', r'-> LazyBuilder\b', "-> LazyBuilder<'_>")],
         requires=[E('wf', 'old(ent).alloc.wf()'), E('headroom', 'old(ent).alloc.headroom()')],
         ensures=[E('wf', 'final(ent).alloc.wf()', 'C01 C02'),
                  E('handle', 'hid(r.entity) == old(ent).alloc.abs().created()', 'C01 C20'),
                  E('state', 'final(ent).alloc.abs() == old(ent).alloc.abs().create_deferred()', 'C01 C02 C17 C20')])
    u.fn(L, ["impl<'a> Builder for LazyBuilder<'a>", 'fn build'], ret='r', props='C01',
         impl_header="impl<'a> LazyBuilder<'a>", key='LazyBuilder::build',
         ensures=[E('entity', 'r == self.entity')])
    # ---- immediate deletion (the #766 shape: only the killed prefix is purged)
    u.fn(W, ['impl WorldExt for World', 'fn delete_entities'], ret='r', props='C02 C05', impl_header=IH, key='World::delete_entities',
         requires=[E('wf', 'old(self).wf()'), E('headroom', 'old(self).ents().alloc.headroom()'), E('legit', 'all_legit(&old(self).ents().alloc, delete@)')],
         ensures=[E('wf', 'final(self).wf()', 'C01 C02'),
                  E('result', 'old(self).abs().kill_stops_at(delete@, kill_pos(r, delete@)) && (r.is_err() ==> kill_pos(r, delete@) < delete@.len() && r.unwrap_err().0.entity == delete@[kill_pos(r, delete@) as int])', 'C02 C05 C20'),
                  E('core', 'final(self).abs().core_eq(old(self).abs().kill_fold(delete@, kill_pos(r, delete@)))', 'C01 C02 C05 C20'),
                  E('free', 'final(self).abs().free == old(self).abs().killed_free(delete@, kill_pos(r, delete@))', 'C17 C20'),
                  E('complete', 'old(self).ents().alloc.wf_complete() ==> final(self).ents().alloc.wf_complete()', 'C17'),
                  E('purged', 'final(self).purged(old(self), ids(delete@.subrange(0, kill_pos(r, delete@) as int)))', 'C05'),
                  ],
         hints=[('start', None, 'proof { assert(delete@.subrange(0, delete@.len() as int) =~= delete@); }')])
    u.fn(W, ['impl WorldExt for World', 'fn delete_entity'], ret='r', props='C02 C05', impl_header=IH, key='World::delete_entity',
         rules=[('N9', r'\|\(wrong_gen, _\)\| wrong_gen', '|p__: (WrongGeneration, usize)| -> (r__: WrongGeneration) ensures r__ == p__.0, { let (wrong_gen, _u) = p__; wrong_gen }')],
         requires=[E('wf', 'old(self).wf()'), E('headroom', 'old(self).ents().alloc.headroom()'), E('legit', 'old(self).abs().legit(entity)')],
         ensures=[E('wf', 'final(self).wf()', 'C01 C02'),
                  E('result', 'r.is_ok() == old(self).abs().current(entity)', 'C02'),
                  E('err_entity', 'r.is_err() ==> r.unwrap_err().entity == entity', 'C02'),
                  E('state', 'final(self).abs().core_eq(if old(self).abs().current(entity) { old(self).abs().kill_one(entity) } else { old(self).abs() })', 'C01 C02 C05'),
                  E('purged', 'final(self).purged(old(self), if old(self).abs().current(entity) { seq![entity.0] } else { Seq::<u32>::empty() })', 'C05')],
         hints=[('start', None, 'proof { let s = old(self).abs(); assert forall|d: Seq<Entity>, k: nat| d.len() == 1 && d[0] == entity && #[trigger] s.kill_stops_at(d, k) implies k <= 1 && (k == 1) == s.current(entity) && s.kill_fold(d, k) == (if k == 1 { s.kill_one(entity) } else { s }) && ids(d.subrange(0, k as int)) == (if k == 1 { seq![entity.0] } else { Seq::<u32>::empty() }) by { lemma_single_kill(s, d, k); } }')])
    u.fn(W, ['impl WorldExt for World', 'fn delete_all'], props='C02 C01 C05', impl_header=IH, key='World::delete_all',
         rules=[('N10', r'self\.entities\(\)\.join\(\)\.collect\(\)', 'collect_entities_join(self.entities())'), ('N1', r'let (\w+): Vec<_> =', r'let \1: Vec<Entity> =')],
         bind={'ents': r'let (\w+): Vec<Entity> = collect_entities_join\('},
         requires=[E('wf', 'old(self).wf()'), E('headroom', 'old(self).ents().alloc.headroom()')],
         ensures=[E('wf', 'final(self).wf()', 'C01 C02'),
                  E('none_left', 'forall|i: u32| !(#[trigger] final(self).abs().occ(i))', 'C02'),
                  E('purged', 'final(self).purged(old(self), sorted_seq(old(self).ents().alloc.alive@ + old(self).ents().alloc.raised@))', 'C05')],
         hints=[('after', 'collect_entities_join(', 'proof { lemma_delete_all(&old(self).ents().alloc, $ents@); assert($ents@.subrange(0, $ents@.len() as int) =~= $ents@); assert(ids($ents@) =~= sorted_seq(old(self).ents().alloc.alive@ + old(self).ents().alloc.raised@)); }'),
                ('before_tail', None, 'proof { assert forall|i: u32| !(#[trigger] self.abs().occ(i)) by { let f = old(self).abs().kill_fold($ents@, $ents@.len()); assert(!f.occ(i)); assert(self.abs().alive.contains(i) == f.alive.contains(i)); assert(self.abs().raised.contains(i) == f.raised.contains(i)); } }')])
    # the purge itself: walks the table of listed storages (N10: MetaTable::iter_mut -> index loop over the listed storages)
    u.fn(W, ['impl WorldExt for World', 'fn delete_components'], props='C05', impl_header=IH, key='World::delete_components',
         rules=[('N10', r'for (?:mut )?storage in self\s*\.fetch_mut::<MetaTable<dyn AnyStorage>>\(\)\s*\.iter_mut\(self\)\s*\{\s*\(?\*?storage\)?\.drop\((.*?)\);\s*\}',
                 r'for k__ in 0..self.listed_len() { self.listed_drop(k__, \1); }'),
                # the same walk with the fetched table bound to a local first
                ('N10', r'let (?:mut )?(\w+) = self\s*\.fetch_mut::<MetaTable<dyn AnyStorage>>\(\);\s*for (?:mut )?storage in \1\.iter_mut\(self\)\s*\{\s*\(?\*?storage\)?\.drop\((.*?)\);\s*\}',
                 r'for k__ in 0..self.listed_len() { self.listed_drop(k__, \2); }')],
         ensures=[E('ents', 'final(self).ents() == old(self).ents() && final(self).same_lazy(old(self))'),
                  E('purged', 'final(self).purged(old(self), ids(delete@))', 'C05')],
         loops={0: dict(invariant=[
             E('ents', 'self.ents() == old(self).ents() && self.listed_seq() == old(self).listed_seq() && self.same_lazy(old(self))'),
             E('done', 'forall|s: StorageId| #![trigger self.smask(s)] #![trigger self.listed(s)] #![trigger self.has_storage(s)] self.has_storage(s) == old(self).has_storage(s) && self.listed(s) == old(self).listed(s) && self.smask(s) == (if exists|j: int| 0 <= j < k__ && old(self).listed_seq()[j] == s { old(self).smask(s) - ids(delete@).to_set() } else { old(self).smask(s) })')])},
         hints=[('start', None, 'broadcast use World::axiom_listed_seq;'),
                ('after_loop', 0, 'proof { old(self).axiom_listed_seq(); assert forall|s: StorageId| #![trigger self.smask(s)] self.smask(s) == (if old(self).listed(s) { old(self).smask(s) - ids(delete@).to_set() } else { old(self).smask(s) }) by { if old(self).listed(s) { assert(old(self).listed_seq().contains(s)); let j = choose|j: int| 0 <= j < old(self).listed_seq().len() && old(self).listed_seq()[j] == s;  } } }')])
    # ---- draining the lazy queue (C09, reduced): N22 (while-let), N10 (`self.queue.0.pop()` -> `world.lazy_pop()`: the drained LazyUpdate is the world's own)
    u.fn(L, ['impl LazyUpdate', 'fn maintain'], props='C09', key='LazyUpdate::maintain', attr='#[verifier::exec_allows_no_decreases_clause]', brace_arms=True,
         rules=[('N10', r'self\.queue\.0\.pop\(\)', 'world.lazy_pop()')],
         ensures=[E('drained', 'final(world).lazy_queue() == Seq::<int>::empty()'),
                  E('order', 'pending(old(world)).is_prefix_of(final(world).lazy_log())')],
         loops={0: dict(invariant=[E('grows', 'pending(old(world)).is_prefix_of(pending(world))')],
                        ensures=[E('drained', 'world.lazy_queue().len() == 0')])},
         bind={'l': r'Some\((\w+)\) =>'},
         hints=[('before', '.update(world)', 'let ghost lg__ = world.lazy_log(); let ghost qq__ = world.lazy_queue(); let ghost p0__ = pending(world); let ghost a__ = $l.aid();'),
                ('after', '.update(world)', 'proof { let w0q = seq![a__] + qq__; assert(w0q.drop_first() =~= qq__); lemma_pending_step(lg__, w0q, world.lazy_queue()); }')])
    u.fn(W, ['impl WorldExt for World', 'fn is_alive'], ret='r', props='C02', impl_header=IH, key='World::is_alive',
         requires=[E('wf', 'self.wf()'), E('posgen', 'e.1.0@ > 0')],
         ensures=[E('merged_view', 'r == (self.ents().alloc.alive@.contains(e.0) && self.ents().alloc.gid(e.0 as int) == e.1.0@)')])
    u.fn(W, ['impl WorldExt for World', 'fn maintain'], props='C02 C05', impl_header=IH, key='World::maintain',
         requires=[E('wf', 'old(self).wf()'), E('headroom', 'old(self).ents().alloc.headroom()'), E('w1', 'old(self).masks_within_occ()')],
         ensures=[E('drained', 'final(self).lazy_queue() == Seq::<int>::empty()', 'C09'),
                  E('order', 'pending(old(self)).is_prefix_of(final(self).lazy_log())', 'C09')],
         hint_obligations=[E('merged', 'after the merge step the allocator is in state merged() of the old one', 'C02 C05 C09'),
                           E('purged', 'every listed storage lost exactly the indices merge() returned, nothing else changed', 'C05 C09'),
                           E('queue_untouched', 'merge and purge ran before any queued action: the queue and the execution log are still what they were', 'C09'),
                           ],
         bind={'deleted': r'let (\w+) = self\.entities_mut\(\)\.alloc\.merge\(\)'},
         hints=[('before', '.write_resource::<LazyUpdate>()', 'proof { assert(/*@L:hint.merged*/ self.abs().core_eq(old(self).abs().merged()) /*@E*/); lemma_out_ids($deleted@, old(self).abs()); if $deleted@.len() == 0 { lemma_purge_nothing(&*self, old(self), sorted_seq(old(self).abs().killed)); } assert(/*@L:hint.purged*/ self.purged(old(self), sorted_seq(old(self).abs().killed)) /*@E*/); assert(/*@L:hint.queue_untouched*/ self.same_lazy(old(self)) /*@E*/); }')])
    return u
