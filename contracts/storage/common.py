# shared between units `storage` and `flagged`: the UnprotectedStorage<T> trait = hand-written contract of the
# required methods (contracts/storage/trait_us.rs) + the extracted default method `drop` (src/storage/mod.rs)
from vx.unit import E

S = 'src/storage/mod.rs'
EV_FRAME = 'forall|j: Index| #![trigger final(self).ev_insert(j)] #![trigger final(self).ev_remove(j)] #![trigger final(self).ev_get_mut(j)] final(self).ev_insert(j) == old(self).ev_insert(j) && final(self).ev_remove(j) == old(self).ev_remove(j) && final(self).ev_get_mut(j) == old(self).ev_get_mut(j)'


def add_trait(u):
    u.groups['trait_us'] = dict(header='trait UnprotectedStorage<T>: Sized', pre='storage/trait_us.rs')
    u.fn(S, ['trait UnprotectedStorage<T>', 'fn drop'], props='C04 C05 C12', group='trait_us', key='UnprotectedStorage::drop(default)',
         requires=[E('has', 'old(self).has(id)')],
         ensures=[E('trait.drop.gone', '!final(self).has(id)'),
                  E('trait.drop.wf', 'old(self).us_wf() ==> final(self).us_wf()'),
                  E('trait.drop.frame', '(forall|j: Index| #![trigger final(self).has(j)] j != id ==> final(self).has(j) == old(self).has(j)) && (forall|j: Index| #![trigger final(self).val(j)] j != id ==> final(self).val(j) == old(self).val(j))'),
                  E('trait.drop.events', 'final(self).log() == old(self).log() + old(self).ev_remove(id) && (' + EV_FRAME + ')', 'C12')])
