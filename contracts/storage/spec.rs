// Trait-level contract of `UnprotectedStorage<T>` (src/storage/mod.rs:763-858) and the vocabulary of the
// masked storage layer. The trait declaration is *specification*: the layer (MaskedStorage / Storage /
// entries / drain / restricted storages) is proved against it for an arbitrary implementor, and each
// built-in storage kind is checked to satisfy it by the bounded Kani harnesses (C04 kinds).
// N8: the generic associated type `AccessMut<'a>` is fixed to `&'a mut T` (true of every plain kind and of
// FlaggedStorage; DerefFlaggedStorage's deferred wrapper is handled in unit `flagged`).


pub open spec fn same_has<T, S: UnprotectedStorage<T>>(o: &S, n: &S) -> bool {
    forall|j: Index| #![trigger n.has(j)] n.has(j) == o.has(j)
}
pub open spec fn same_has_except<T, S: UnprotectedStorage<T>>(o: &S, n: &S, id: Index) -> bool {
    forall|j: Index| #![trigger n.has(j)] j != id ==> n.has(j) == o.has(j)
}
pub open spec fn same_val_except<T, S: UnprotectedStorage<T>>(o: &S, n: &S, id: Index) -> bool {
    forall|j: Index| #![trigger n.val(j)] j != id ==> n.val(j) == o.val(j)
}
// the per-operation effects do not depend on the content (only on configuration such as the emission switch)
pub open spec fn same_ev<T, S: UnprotectedStorage<T>>(o: &S, n: &S) -> bool {
    forall|j: Index| #![trigger n.ev_insert(j)] #![trigger n.ev_remove(j)] #![trigger n.ev_get_mut(j)]
        n.ev_insert(j) == o.ev_insert(j) && n.ev_remove(j) == o.ev_remove(j) && n.ev_get_mut(j) == o.ev_get_mut(j)
}

pub trait Component: Sized {
    type Storage: UnprotectedStorage<Self>;
}

impl<T: Component> MaskedStorage<T> {
    // representation invariant: the mask is exactly the set of indices holding a value
    pub open spec fn wf(&self) -> bool {
        &&& self.inner.us_wf()
        &&& forall|i: Index| #![trigger self.mask@.contains(i)] #![trigger self.inner.has(i)] self.mask@.contains(i) <==> self.inner.has(i)
    }
    // the storage as a plain map from index to component (C04)
    pub open spec fn view(&self) -> Map<Index, T> {
        Map::new(self.mask@, |i: Index| self.inner.val(i))
    }
    pub open spec fn log(&self) -> Seq<ComponentEvent> { self.inner.log() }
}

// what `self.entities.is_alive(e)` means for the storage layer
pub open spec fn ent_ok(ents: &EntitiesRes) -> bool { ents.alloc.wf() && ents.alloc.headroom_n(2) }
pub open spec fn live(ents: &EntitiesRes, e: Entity) -> bool { ents.alloc.alive_spec(e) }

pub proof fn lemma_ids_push(d: Seq<Entity>, k: int)
    requires 0 <= k < d.len(),
    ensures forall|i: u32| ids(d.subrange(0, k + 1)).contains(i) == (ids(d.subrange(0, k)).contains(i) || d[k].0 == i),
{
    let a = ids(d.subrange(0, k + 1));
    let b = ids(d.subrange(0, k));
    assert(a =~= b.push(d[k].0));
    assert forall|i: u32| a.contains(i) == (b.contains(i) || d[k].0 == i) by {
        if a.contains(i) {
            let x = choose|x: int| 0 <= x < a.len() && a[x] == i;
            if x < k { assert(b[x] == i); }
        }
        if b.contains(i) {
            let x = choose|x: int| 0 <= x < b.len() && b[x] == i;
            assert(a[x] == i);
        }
        if d[k].0 == i { assert(a[k] == i); }
    }
}

// TRUSTED (borrow semantics): when the drop guard of Storage::not_present_insert is forgotten, the exclusive
// borrow it holds simply ends; the borrowed MaskedStorage keeps the value it had at that moment.
pub broadcast axiom fn axiom_guard_resolved<'a, T: Component>(g: RemoveOnDrop<'a, T>)
    requires #[trigger] has_resolved(g),
    ensures has_resolved(g.0);

// state in which the unwinding guard of not_present_insert may run: the value for `id` is already stored, its mask bit is
// not yet set, every other index is in step (C19; relies on the source's stated assumption that a panicking
// `BitSet::add` leaves the bit set unchanged)
pub open spec fn guard_pre<T: Component>(m: &MaskedStorage<T>, id: Index) -> bool {
    &&& m.inner.us_wf()
    &&& m.inner.has(id) && !m.mask@.contains(id)
    &&& forall|i: Index| #![trigger m.mask@.contains(i)] #![trigger m.inner.has(i)] i != id ==> (m.mask@.contains(i) <==> m.inner.has(i))
}

// element-wise form of "n is o with id mapped to v" (used where the final value is only known through a returned borrow)
pub open spec fn map_inserted<T: Component>(o: &MaskedStorage<T>, n: &MaskedStorage<T>, id: Index, v: T) -> bool {
    &&& n.mask@ =~= o.mask@.insert(id)
    &&& n.inner.val(id) == v
    &&& forall|j: Index| #![trigger n.inner.val(j)] j != id ==> n.inner.val(j) == o.inner.val(j)
}
//@props C04
pub proof fn lemma_map_inserted<T: Component>(o: &MaskedStorage<T>, n: &MaskedStorage<T>, id: Index, v: T)
    requires map_inserted(o, n, id, v),
    ensures n@ =~= o@.insert(id, v),
{
    assert forall|j: Index| n@.dom().contains(j) implies #[trigger] n@[j] == o@.insert(id, v)[j] by {
        if j != id { assert(n.inner.val(j) == o.inner.val(j)); }
    }
}

// `T: Default` as used by get_mut_or_default: the default value is a fixed value of the type
pub trait DefaultSpec: Sized {
    spec fn default_spec() -> Self;
    fn default_exec() -> (r: Self) ensures r == Self::default_spec();
}
