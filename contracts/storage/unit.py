# Unit `storage`: alloc + the masked storage layer (C03, C04 layer, C05c, C12 composition)
import importlib.util, os
from vx.unit import Unit, E

_here = os.path.dirname(os.path.abspath(__file__))
_spec = importlib.util.spec_from_file_location('unit_alloc_base', os.path.join(_here, '..', 'alloc', 'unit.py'))
_alloc = importlib.util.module_from_spec(_spec)
_spec.loader.exec_module(_alloc)
_cs = importlib.util.spec_from_file_location('storage_common', os.path.join(_here, 'common.py'))
_common = importlib.util.module_from_spec(_cs)
_cs.loader.exec_module(_common)

S = 'src/storage/mod.rs'
N8 = [('N8', r"AccessMutReturn<'_, T>", '&mut T'), ('N8', r"AccessMutReturn<'a, T>", "&'a mut T"),
      ('N8', r'\.access_mut\(\)', '')]
HR = "impl<'e, 'd, T> Storage<'e, T, &'d MaskedStorage<T>> where T: Component,"
HW = "impl<'e, 'd, T> Storage<'e, T, &'d mut MaskedStorage<T>> where T: Component,"
SIMPL = "impl<'e, T, D> Storage<'e, T, D>"


def build():
    u = _alloc.build()
    u.name = 'storage'
    # N10 (unit-wide): core::mem::take on a BitSet field -> the prelude's take_bitset stub (same contract: returns the old set, leaves the empty default)
    u.global_rules = u.global_rules + [('N10', r'core::mem::take\(&mut ([\w\.]+)\)', r'take_bitset(&mut \1)')]
    u.prelude = u.prelude + [('prelude/shred_fetch.rs', 'private')]
    # the history-level trace lemmas are checked in units alloc/world; the storage layer only needs the per-function contracts
    u.spec = [x for x in u.spec if x != 'alloc/spec_trace.rs'] + ['storage/spec.rs']
    u.files = u.files + [S, 'src/storage/entry.rs', 'src/storage/generic.rs', 'src/storage/drain.rs']
    u.struct('src/storage/track.rs', ['enum ComponentEvent'], derive='Clone, Copy, PartialEq, Eq, Structural')
    _common.add_trait(u)
    u.struct(S, ['type InsertResult'])
    u.struct('src/error.rs', ['enum Error'], derive='Debug')
    u.struct(S, ['struct MaskedStorage'])
    u.struct(S, ['struct Storage'])
    MIMPL = 'impl<T: Component> MaskedStorage<T>'
    u.fn(S, [MIMPL, 'fn new'], ret='r', props='C04',
         requires=[E('empty', 'forall|i: Index| !inner.has(i)'), E('inner_wf', 'inner.us_wf()')],
         ensures=[E('wf', 'r.wf()'), E('empty', 'r@ == Map::<Index, T>::empty()'), E('inner', 'r.inner == inner')])
    # C19 (reduced): at every call that can run a component destructor the bookkeeping already treats the value as gone
    BIT = lambda call: [('before', call, 'proof { assert(/*@L:hint.bit_cleared*/ !self.mask@.contains(id) /*@E*/); }', 'soft')]
    BIT_OB = [E('bit_cleared', 'the mask bit is cleared before the raw remove / drop of the value', 'C19')]
    u.fn(S, [MIMPL, 'fn remove'], ret='r', props='C04 C12', hints=BIT('self.inner.remove(id)'), hint_obligations=BIT_OB,
         requires=[E('wf', 'old(self).wf()')],
         ensures=[E('wf', 'final(self).wf()'),
                  E('ret', 'r == (if old(self)@.dom().contains(id) { Some(old(self)@[id]) } else { None })'),
                  E('map', 'final(self)@ == old(self)@.remove(id)'),
                  E('events', 'final(self).log() == old(self).log() + (if old(self)@.dom().contains(id) { old(self).inner.ev_remove(id) } else { Seq::empty() })', 'C12'),
                  E('ev_frame', 'same_ev(&old(self).inner, &final(self).inner)', 'C12')])
    u.fn(S, [MIMPL, 'fn drop'], props='C04 C05 C12', hints=BIT('self.inner.drop(id)'), hint_obligations=BIT_OB,
         requires=[E('wf', 'old(self).wf()')],
         ensures=[E('wf', 'final(self).wf()'),
                  E('map', 'final(self)@ == old(self)@.remove(id)'),
                  E('events', 'final(self).log() == old(self).log() + (if old(self)@.dom().contains(id) { old(self).inner.ev_remove(id) } else { Seq::empty() })', 'C12'),
                  E('ev_frame', 'same_ev(&old(self).inner, &final(self).inner)', 'C12')])
    u.fn(S, [MIMPL, 'fn open_mut'], ret='r', props='C04 C06',
         ensures=[E('mask', '*r.0 == old(self).mask'), E('inner', '*r.1 == old(self).inner'),
                  E('final', 'final(self).mask == old(self).mask && final(self).inner == *final(r.1)')])
    u.fn(S, [MIMPL, 'fn clear'], props='C04',
         hints=[('before', 'unsafe { self.inner.clean(', 'proof { assert(/*@L:hint.mask_taken*/ self.mask@ == Set::<u32>::empty() /*@E*/); }', 'soft')],
         hint_obligations=[E('mask_taken', 'when clean() runs the destructors the storage mask has already been swapped for the empty one', 'C19')],
         requires=[E('wf', 'old(self).wf()')],
         ensures=[E('wf', 'final(self).wf()'), E('map', 'final(self)@ == Map::<Index, T>::empty()'),
                  E('events', 'final(self).log() == old(self).log()', 'C12'),
                  E('ev_frame', 'same_ev(&old(self).inner, &final(self).inner)', 'C12')])
    # Drop for MaskedStorage (what dropping the world runs for every storage): N12, emitted as the inherent method `drop_impl`
    u.fn(S, ['impl<T: Component> Drop for MaskedStorage<T>', 'fn drop'], props='C04 C08 C19', impl_header='impl<T: Component> MaskedStorage<T>', key='MaskedStorage::Drop::drop',
         rules=[('N12', r'fn drop\(&mut self\)', 'fn drop_impl(&mut self)')],
         requires=[E('wf', 'old(self).wf()')],
         ensures=[E('cleared', 'final(self)@ == Map::<Index, T>::empty() && final(self).wf()', 'C04 C08 C19')])
    u.fn(S, ['impl<T> AnyStorage for MaskedStorage<T>', 'fn drop'], props='C05 C04 C12',
         impl_header='impl<T: Component> MaskedStorage<T>', free=None, key='MaskedStorage::any_drop',
         rules=[('N12', r'fn drop\(', 'fn any_drop('), ('N11', r'for entity in entities \{', 'for entity in entities.iter() {')],
         requires=[E('wf', 'old(self).wf()')],
         ensures=[E('wf', 'final(self).wf()'),
                  E('purged', 'forall|i: Index| #![trigger final(self)@.dom().contains(i)] final(self)@.dom().contains(i) == (old(self)@.dom().contains(i) && !ids(entities@).contains(i))', 'C05'),
                  E('kept', 'forall|i: Index| #![trigger final(self)@[i]] final(self)@.dom().contains(i) ==> final(self)@[i] == old(self)@[i]', 'C05')],
         loops={0: dict(iter_name='it', invariant=[
             E('wf', 'self.wf()'),
             E('seq', 'it.seq().len() == entities@.len() && forall|k: int| 0 <= k < entities@.len() ==> *it.seq()[k] == entities@[k]'),
             E('purged', 'forall|i: Index| #![trigger self@.dom().contains(i)] self@.dom().contains(i) == (old(self)@.dom().contains(i) && !ids(entities@.subrange(0, it.index@ as int)).contains(i))'),
             E('kept', 'forall|i: Index| #![trigger self@[i]] self@.dom().contains(i) ==> self@[i] == old(self)@[i]')],
             end='proof { lemma_ids_push(entities@, it.index@ as int); }')},
         hints=[('before_loop', 0, 'proof { assert(ids(entities@.subrange(0, 0)) =~= Seq::<u32>::empty()); }'),
                ('after_loop', 0, 'proof { assert(entities@.subrange(0, entities@.len() as int) =~= entities@); }')])
    # ---- Storage: D instantiated at & and &mut (N8)
    RD = [E('data_wf', 'self.data.wf()'), E('ents', 'ent_ok(self.entities)')]
    WR = [E('data_wf', 'old(self).data.wf()'), E('ents', 'ent_ok(old(self).entities)')]
    FRAME_W = [E('ents_same', 'final(self).entities == old(self).entities', 'C03 C04'),
               # the handle keeps borrowing the SAME storage (needed by callers that let the handle die and then speak about the lender)
               E('same_ref', '*final(final(self).data) == *final(old(self).data)', 'C04'),
               E('ev_frame', 'same_ev(&old(self).data.inner, &final(self).data.inner)', 'C12')]
    for (hdr, tag) in [(HR, '&'), (HW, '&mut')]:
        D = 'self.data' if tag == '&' else 'old(self.data)'
        RDx = [E('data_wf', D + '.wf()'), E('ents', 'ent_ok(self.entities)')]
        u.fn(S, [SIMPL, 'fn get'], ret='r', props='C03 C04', impl_header=hdr, key='Storage(%s)::get' % tag, rules=N8,
             requires=RDx,
             ensures=[E('stale', '!live(self.entities, e) ==> r is None', 'C03'),
                      E('map', 'r == (if %s@.dom().contains(e.0) && live(self.entities, e) { Some(&%s@[e.0]) } else { None })' % (D, D), 'C04')])
        u.fn(S, [SIMPL, 'fn contains'], ret='r', props='C03 C04', impl_header=hdr, key='Storage(%s)::contains' % tag, rules=N8,
             requires=RDx,
             ensures=[E('stale', '!live(self.entities, e) ==> !r', 'C03'),
                      E('map', 'r == (%s@.dom().contains(e.0) && live(self.entities, e))' % D, 'C04')])
        u.fn(S, [SIMPL, 'fn mask'], ret='r', props='C04 C06', impl_header=hdr, key='Storage(%s)::mask' % tag, rules=N8,
             ensures=[E('mask', 'r@ == %s.mask@' % D)])
    for (hdr, tag) in [(HR, '&'), (HW, '&mut')]:
        D = 'self.data' if tag == '&' else 'old(self.data)'
        u.fn(S, [SIMPL, 'fn unprotected_storage'], ret='r', props='C04', impl_header=hdr, key='Storage(%s)::unprotected_storage' % tag, rules=N8,
             ensures=[E('inner', '*r == %s.inner' % D)])
        u.fn(S, [SIMPL, 'fn fetched_entities'], ret='r', props='C04', impl_header=hdr, key='Storage(%s)::fetched_entities' % tag, rules=N8,
             ensures=[E('ents', 'r == self.entities')])
    u.fn(S, [SIMPL, 'fn unprotected_storage_mut'], ret='r', props='C04', impl_header=HW, key='Storage(&mut)::unprotected_storage_mut', rules=N8,
         ensures=[E('inner', '*r == old(self).data.inner'), E('final', 'final(self).data.inner == *final(r) && final(self).data.mask == old(self).data.mask && final(self).entities == old(self).entities')])
    u.fn(S, [SIMPL, 'fn get_mut'], ret='r', props='C03 C04 C12', impl_header=HW, key='Storage(&mut)::get_mut', rules=N8,
         requires=WR,
         ensures=[E('stale', '!live(old(self).entities, e) ==> r is None && final(self).data@ == old(self).data@ && final(self).data.log() == old(self).data.log()', 'C03'),
                  E('absent', '!old(self).data@.dom().contains(e.0) ==> r is None && final(self).data@ == old(self).data@ && final(self).data.log() == old(self).data.log()', 'C04'),
                  E('present', 'old(self).data@.dom().contains(e.0) && live(old(self).entities, e) ==> r is Some && *r.unwrap() == old(self).data@[e.0] && final(self).data@ == old(self).data@.insert(e.0, *final(r.unwrap()))', 'C04'),
                  E('events', 'old(self).data@.dom().contains(e.0) && live(old(self).entities, e) ==> final(self).data.log() == old(self).data.log() + old(self).data.inner.ev_get_mut(e.0)', 'C12'),
                  E('wf', 'final(self).data.wf()', 'C04')] + FRAME_W)
    u.fn(S, [SIMPL, 'fn remove'], ret='r', props='C03 C04 C12', impl_header=HW, key='Storage(&mut)::remove', rules=N8,
         requires=WR,
         ensures=[E('stale', '!live(old(self).entities, e) ==> r is None && final(self).data@ == old(self).data@ && final(self).data.log() == old(self).data.log()', 'C03'),
                  E('ret', 'r == (if old(self).data@.dom().contains(e.0) && live(old(self).entities, e) { Some(old(self).data@[e.0]) } else { None })', 'C04'),
                  E('map', 'live(old(self).entities, e) ==> final(self).data@ == old(self).data@.remove(e.0)', 'C04'),
                  E('events', 'final(self).data.log() == old(self).data.log() + (if old(self).data@.dom().contains(e.0) && live(old(self).entities, e) { old(self).data.inner.ev_remove(e.0) } else { Seq::empty() })', 'C12'),
                  E('wf', 'final(self).data.wf()', 'C04')] + FRAME_W)
    u.fn(S, [SIMPL, 'fn clear'], props='C04', impl_header=HW, key='Storage(&mut)::clear', rules=N8,
         requires=WR,
         ensures=[E('map', 'final(self).data@ == Map::<Index, T>::empty()'), E('wf', 'final(self).data.wf()'),
                  E('events', 'final(self).data.log() == old(self).data.log()', 'C12')] + FRAME_W)
    u.fn(S, [SIMPL, 'fn not_present_insert'], props='C04 C12', impl_header=HW, key='Storage(&mut)::not_present_insert',
         rules=N8 + [('N13', r'cfg!\(panic = "abort"\)', 'cfg_panic_abort()')],
         requires=WR + [E('absent', '!old(self).data@.dom().contains(id)')],
         hints=[('start', None, 'broadcast use axiom_guard_resolved;'),
                ('after', 'let guard = RemoveOnDrop(', 'proof { assert(/*@L:hint.guard_armed*/ guard_pre(&*guard.0, guard.1) /*@E*/); }')],
         hint_obligations=[E('guard_armed', 'at the point where BitSet::add could unwind, the guard precondition holds (value stored, mask bit not yet set, everything else in step)', 'C19')],
         guard=dict(requires=[E('pre', 'guard_pre(&*old(self).0, old(self).1)')],
                    ensures=[E('restores', 'final(self).0.wf()', 'C19')]),
         ensures=[E('map', 'final(self).data@ == old(self).data@.insert(id, value)'), E('wf', 'final(self).data.wf()'),
                  E('raw', 'final(self).data.inner.has(id) && final(self).data.inner.val(id) == value && final(self).data.mask@ == old(self).data.mask@.insert(id)'),
                  E('raw_frame', 'forall|j: Index| #![trigger final(self).data.inner.val(j)] j != id ==> final(self).data.inner.val(j) == old(self).data.inner.val(j)'),
                  E('events', 'final(self).data.log() == old(self).data.log() + old(self).data.inner.ev_insert(id)', 'C12')] + FRAME_W)
    u.fn(S, [SIMPL, 'fn insert'], ret='r', props='C03 C04 C12', impl_header=HW, key='Storage(&mut)::insert', rules=N8,
         requires=WR,
         ensures=[E('stale', '!live(old(self).entities, e) ==> r is Err && final(self).data@ == old(self).data@ && final(self).data.log() == old(self).data.log()', 'C03'),
                  E('ok', 'live(old(self).entities, e) ==> r is Ok && final(self).data@ == old(self).data@.insert(e.0, v)', 'C04'),
                  E('ret', 'live(old(self).entities, e) ==> r.unwrap() == (if old(self).data@.dom().contains(e.0) { Some(old(self).data@[e.0]) } else { None })', 'C04'),
                  E('events', 'live(old(self).entities, e) ==> final(self).data.log() == old(self).data.log() + (if old(self).data@.dom().contains(e.0) { old(self).data.inner.ev_get_mut(e.0) } else { old(self).data.inner.ev_insert(e.0) })', 'C12'),
                  E('wf', 'final(self).data.wf()', 'C04')] + FRAME_W)
    # ---- entry API (src/storage/entry.rs)
    EN = 'src/storage/entry.rs'
    EIMPL = "impl<'e, T, D> Storage<'e, T, D>"
    D8 = N8 + [('N8', r"\bD\b(?!:)", "&'d mut MaskedStorage<T>")]
    u.struct(EN, ['struct OccupiedEntry'], rules=[('N8', r"<'a, 'b: 'a, T: 'a, D: 'a>", "<'a, 'b: 'a, 'd: 'a, T: Component>"), ('N8', r"Storage<'b, T, D>", "Storage<'b, T, &'d mut MaskedStorage<T>>")])
    u.struct(EN, ['struct VacantEntry'], rules=[('N8', r"<'a, 'b: 'a, T: 'a, D: 'a>", "<'a, 'b: 'a, 'd: 'a, T: Component>"), ('N8', r"Storage<'b, T, D>", "Storage<'b, T, &'d mut MaskedStorage<T>>")])
    u.struct(EN, ['enum StorageEntry'], rules=[('N8', r"<'a, 'b: 'a, T: 'a, D: 'a>", "<'a, 'b: 'a, 'd: 'a, T: Component>"), ('N8', r"<'a, 'b, T, D>", "<'a, 'b, 'd, T>")])
    SE = "StorageEntry<'a, 'e, 'd, T>"
    ERULES = N8 + [('N8', r"StorageEntry<'a, 'e, T, D>", SE)]
    u.fn(EN, [EIMPL, 'fn entry_inner'], ret='r', props='C04', impl_header=HW, key='Storage(&mut)::entry_inner', rules=ERULES,
         requires=WR,
         ensures=[E('occupied', 'old(self).data@.dom().contains(id) ==> (r matches StorageEntry::Occupied(o) && o.id == id && *o.storage == *old(self) && *final(o.storage) == *final(self))'),
                  E('vacant', '!old(self).data@.dom().contains(id) ==> (r matches StorageEntry::Vacant(v) && v.id == id && *v.storage == *old(self) && *final(v.storage) == *final(self))')])
    u.fn(EN, [EIMPL, 'fn entry'], ret='r', props='C03 C04', impl_header=HW, key='Storage(&mut)::entry', rules=ERULES + [_alloc.GEN_ONE_CLOSURE],
         requires=WR,
         ensures=[E('stale', '!live(old(self).entities, e) ==> r is Err && *final(self) == *old(self)', 'C03'),
                  E('live', 'live(old(self).entities, e) ==> r is Ok', 'C04'),
                  E('occupied', 'live(old(self).entities, e) && old(self).data@.dom().contains(e.0) ==> (r.unwrap() matches StorageEntry::Occupied(o) && o.id == e.0 && *o.storage == *old(self) && *final(o.storage) == *final(self))', 'C04'),
                  E('vacant', 'live(old(self).entities, e) && !old(self).data@.dom().contains(e.0) ==> (r.unwrap() matches StorageEntry::Vacant(v) && v.id == e.0 && *v.storage == *old(self) && *final(v.storage) == *final(self))', 'C04')])
    OH = "impl<'a, 'b, 'd, T> OccupiedEntry<'a, 'b, 'd, T> where T: Component,"
    OREQ = lambda o: [E('wf', '%s.storage.data.wf()' % o), E('occ', '%s.storage.data@.dom().contains(%s.id)' % (o, o))]
    u.fn(EN, ["impl<'a, 'b, T, D> OccupiedEntry<'a, 'b, T, D>", 'fn get'], ret='r', props='C04', impl_header=OH, key='OccupiedEntry::get', rules=N8, nth=0,
         requires=[E('wf', 'old(self.storage).data.wf()'), E('occ', 'old(self.storage).data@.dom().contains(self.id)')],
         ensures=[E('val', '*r == old(self.storage).data@[self.id]')])
    u.fn(EN, ["impl<'a, 'b, T, D> OccupiedEntry<'a, 'b, T, D>", 'fn get_mut'], ret='r', props='C04 C12', impl_header=OH, key='OccupiedEntry::get_mut', rules=N8,
         requires=OREQ('old(self)'),
         ensures=[E('val', '*r == old(self).storage.data@[old(self).id]'),
                  E('map', 'final(self).storage.data@ == old(self).storage.data@.insert(old(self).id, *final(r)) && final(self).id == old(self).id'),
                  E('same_ref', '*final(final(self).storage) == *final(old(self).storage)'),
                  E('wf', 'final(self).storage.data.wf()'),
                  E('events', 'final(self).storage.data.log() == old(self).storage.data.log() + old(self).storage.data.inner.ev_get_mut(old(self).id)', 'C12')])
    u.fn(EN, ["impl<'a, 'b, T, D> OccupiedEntry<'a, 'b, T, D>", 'fn into_mut'], ret='r', props='C04 C12', impl_header=OH, key='OccupiedEntry::into_mut', rules=N8,
         requires=OREQ('self'),
         ensures=[E('val', '*r == old(self.storage).data@[self.id]'),
                  E('map', 'map_inserted(old(self.storage).data, final(self.storage).data, self.id, *final(r))'),
                  E('wf', 'final(self.storage).data.wf()'),
                  E('ents', 'final(self.storage).entities == old(self.storage).entities'),
                  E('events', 'final(self.storage).data.log() == old(self.storage).data.log() + old(self.storage).data.inner.ev_get_mut(self.id)', 'C12')])
    u.fn(EN, ["impl<'a, 'b, T, D> OccupiedEntry<'a, 'b, T, D>", 'fn insert'], ret='r', props='C04 C12', impl_header=OH, key='OccupiedEntry::insert', rules=N8,
         requires=OREQ('old(self)'),
         ensures=[E('ret', 'r == old(self).storage.data@[old(self).id]'),
                  E('map', 'final(self).storage.data@ == old(self).storage.data@.insert(old(self).id, component) && final(self).id == old(self).id'),
                  E('same_ref', '*final(final(self).storage) == *final(old(self).storage)'),
                  E('wf', 'final(self).storage.data.wf()'),
                  E('events', 'final(self).storage.data.log() == old(self).storage.data.log() + old(self).storage.data.inner.ev_get_mut(old(self).id)', 'C12')])
    u.fn(EN, ["impl<'a, 'b, T, D> OccupiedEntry<'a, 'b, T, D>", 'fn remove'], ret='r', props='C04 C12', impl_header=OH, key='OccupiedEntry::remove', rules=N8,
         requires=OREQ('self'),
         ensures=[E('ret', 'r == old(self.storage).data@[self.id]'),
                  E('map', 'final(self.storage).data@ == old(self.storage).data@.remove(self.id)'),
                  E('wf', 'final(self.storage).data.wf()'),
                  E('events', 'final(self.storage).data.log() == old(self.storage).data.log() + old(self.storage).data.inner.ev_remove(self.id)', 'C12')])
    VH = "impl<'a, 'b, 'd, T> VacantEntry<'a, 'b, 'd, T> where T: Component,"
    u.fn(EN, ["impl<'a, 'b, T, D> VacantEntry<'a, 'b, T, D>", 'fn insert'], ret='r', props='C04 C12', impl_header=VH, key='VacantEntry::insert', rules=N8,
         requires=[E('wf', 'self.storage.data.wf()'), E('ents', 'ent_ok(self.storage.entities)'), E('vacant', '!self.storage.data@.dom().contains(self.id)')],
         ensures=[E('val', '*r == component'),
                  E('map', 'map_inserted(old(self.storage).data, final(self.storage).data, self.id, *final(r))'),
                  E('ents', 'final(self.storage).entities == old(self.storage).entities'),
                  E('wf', 'final(self.storage).data.wf()')])
    SH = "impl<'a, 'b, 'd, T> StorageEntry<'a, 'b, 'd, T> where T: Component,"
    OC = 'self->Occupied_0'
    VC = 'self->Vacant_0'
    SREQ = [E('occ', "self is Occupied ==> %s.storage.data.wf() && %s.storage.data@.dom().contains(%s.id)" % (OC, OC, OC)),
            E('vac', "self is Vacant ==> %s.storage.data.wf() && ent_ok(%s.storage.entities) && !%s.storage.data@.dom().contains(%s.id)" % (VC, VC, VC, VC))]
    u.fn(EN, ["impl<'a, 'b, T, D> StorageEntry<'a, 'b, T, D>", 'fn replace'], ret='r', props='C04 C12', impl_header=SH, key='StorageEntry::replace', rules=N8,
         requires=SREQ,
         ensures=[E('occupied', "self is Occupied ==> r == Some(old(%s.storage).data@[%s.id]) && final(%s.storage).data@ == old(%s.storage).data@.insert(%s.id, component) && final(%s.storage).data.wf()" % (OC, OC, OC, OC, OC, OC)),
                  E('vacant', "self is Vacant ==> r is None && final(%s.storage).data@ == old(%s.storage).data@.insert(%s.id, component) && final(%s.storage).data.wf()" % (VC, VC, VC, VC)),
                  E('events', "self is Occupied ==> final(%s.storage).data.log() == old(%s.storage).data.log() + old(%s.storage).data.inner.ev_get_mut(%s.id)" % (OC, OC, OC, OC), 'C12')])
    OIW_ENS = lambda val: [
        E('occupied', "self is Occupied ==> *r == old(%s.storage).data@[%s.id] && map_inserted(old(%s.storage).data, final(%s.storage).data, %s.id, *final(r)) && final(%s.storage).data.wf()" % (OC, OC, OC, OC, OC, OC)),
        E('vacant', "self is Vacant ==> %s && map_inserted(old(%s.storage).data, final(%s.storage).data, %s.id, *final(r)) && final(%s.storage).data.wf()" % (val, VC, VC, VC, VC)),
        E('events', "self is Occupied ==> final(%s.storage).data.log() == old(%s.storage).data.log() + old(%s.storage).data.inner.ev_get_mut(%s.id)" % (OC, OC, OC, OC), 'C12')]
    u.fn(EN, ["impl<'a, 'b, T, D> StorageEntry<'a, 'b, T, D>", 'fn or_insert_with'], ret='r', props='C04 C12', impl_header=SH, key='StorageEntry::or_insert_with', rules=N8,
         requires=SREQ + [E('callable', 'default.requires(())')],
         ensures=OIW_ENS('default.ensures((), *r)'))
    u.fn(EN, ["impl<'a, 'b, T, D> StorageEntry<'a, 'b, T, D>", 'fn or_insert'], ret='r', props='C04 C12', impl_header=SH, key='StorageEntry::or_insert', rules=N8,
         requires=SREQ,
         ensures=OIW_ENS('*r == component'),
         closures={'or_insert_with:||': dict(params='', ret='v__: T', ensures=[('val', 'v__ == component')])})
    # ---- generic access (src/storage/generic.rs): get_mut_or_default on both duplicated impls
    GN = 'src/storage/generic.rs'
    u.struct('src/storage/data.rs', ['type WriteStorage'])
    GMD_ENS = lambda S_: [
        E('stale', '!live(old(%s).entities, entity) ==> r is None && final(%s).data@ == old(%s).data@' % (S_, S_, S_), 'C03'),
        E('present', 'live(old(%s).entities, entity) && old(%s).data@.dom().contains(entity.0) ==> r is Some && *r.unwrap() == old(%s).data@[entity.0] && final(%s).data@ == old(%s).data@.insert(entity.0, *final(r.unwrap()))' % (S_, S_, S_, S_, S_), 'C04'),
        E('absent', 'live(old(%s).entities, entity) && !old(%s).data@.dom().contains(entity.0) ==> r is Some && *r.unwrap() == T::default_spec() && final(%s).data@ == old(%s).data@.insert(entity.0, *final(r.unwrap()))' % (S_, S_, S_, S_), 'C04'),
    ]
    GRULES = N8 + [('N8', r"Self::Component", 'T'), ('N10', r'Default::default\(\)', 'T::default_exec()')]
    u.fn(GN, ["impl<'a, T> GenericWriteStorage for WriteStorage<'a, T>", 'fn get_mut_or_default'], ret='r', props='C03 C04',
         impl_header="impl<'e, 'd, T> Storage<'e, T, &'d mut MaskedStorage<T>> where T: Component + DefaultSpec,", key='GenericWriteStorage(WriteStorage)::get_mut_or_default',
         rules=GRULES, requires=WR, ensures=GMD_ENS('self'))
    u.fn(GN, ["impl<'a: 'b, 'b, T> GenericWriteStorage for &'b mut WriteStorage<'a, T>", 'fn get_mut_or_default'], ret='r', props='C03 C04',
         free='generic_ref_get_mut_or_default', key='GenericWriteStorage(&mut WriteStorage)::get_mut_or_default',
         rules=GRULES + [('N12', r'fn get_mut_or_default\(&mut self,', "fn get_mut_or_default<'a: 'b, 'b, 'x, T: Component + DefaultSpec>(self_: &'x mut &'b mut WriteStorage<'a, T>,"),
                         ('N12', r'\bself\b', 'self_'), ('N8', r"Option<&mut T>", "Option<&'x mut T>")],
         requires=[E('data_wf', 'old(self_).data.wf()'), E('ents', 'ent_ok(old(self_).entities)')], ensures=GMD_ENS('self_'))
    # the one-line delegations of GenericWriteStorage / GenericReadStorage for the by-value handle types (N12: free functions)
    GW = "impl<'a, T> GenericWriteStorage for WriteStorage<'a, T>"
    SELF_ = [('N12', r'\bself\b', 'self_'), ('N8', r'Self::Component', 'T')]
    GWR = [E('data_wf', 'old(self_).data.wf()'), E('ents', 'ent_ok(old(self_).entities)')]
    u.fn(GN, [GW, 'fn insert'], ret='r', props='C03 C04 C15', free='generic_write_insert', key='GenericWriteStorage(WriteStorage)::insert',
         rules=[('N12', r'fn insert\(&mut self,', "fn insert<'a, T: Component>(self_: &mut WriteStorage<'a, T>,")] + SELF_,
         requires=GWR,
         ensures=[E('stale', '!live(old(self_).entities, entity) ==> r is Err && final(self_).data@ == old(self_).data@', 'C03'),
                  E('ok', 'live(old(self_).entities, entity) ==> r is Ok && final(self_).data@ == old(self_).data@.insert(entity.0, comp)', 'C04'),
                  E('wf', 'final(self_).data.wf() && final(self_).entities == old(self_).entities', 'C04')])
    u.fn(GN, [GW, 'fn remove'], props='C03 C04 C15', free='generic_write_remove', key='GenericWriteStorage(WriteStorage)::remove',
         rules=[('N12', r'fn remove\(&mut self,', "fn remove<'a, T: Component>(self_: &mut WriteStorage<'a, T>,")] + SELF_,
         requires=GWR,
         ensures=[E('map', 'final(self_).data@ == (if live(old(self_).entities, entity) { old(self_).data@.remove(entity.0) } else { old(self_).data@ })', 'C03 C04'),
                  E('wf', 'final(self_).data.wf() && final(self_).entities == old(self_).entities', 'C04')])
    u.fn(GN, [GW, 'fn get_mut'], ret='r', props='C03 C04', free='generic_write_get_mut', key='GenericWriteStorage(WriteStorage)::get_mut',
         rules=N8 + [('N12', r'fn get_mut\(&mut self,', "fn get_mut<'a, 'x, T: Component>(self_: &'x mut WriteStorage<'a, T>,"), ('N8', r"Option<&mut T>", "Option<&'x mut T>")] + SELF_,
         requires=GWR,
         ensures=[E('stale', '!live(old(self_).entities, entity) ==> r is None && final(self_).data@ == old(self_).data@', 'C03'),
                  E('present', 'old(self_).data@.dom().contains(entity.0) && live(old(self_).entities, entity) ==> r is Some && *r.unwrap() == old(self_).data@[entity.0] && final(self_).data@ == old(self_).data@.insert(entity.0, *final(r.unwrap()))', 'C04')])
    # GenericReadStorage::get for the four handle shapes: one-line delegations to Storage::get (N12: free functions)
    u.struct('src/storage/data.rs', ['type ReadStorage'])
    GR_ENS = lambda S_: [E('stale', '!live(%s.entities, entity) ==> r is None' % S_, 'C03'),
                         E('map', 'r == (if %s.data@.dom().contains(entity.0) && live(%s.entities, entity) { Some(&%s.data@[entity.0]) } else { None })' % (S_, S_, S_), 'C04')]
    for (hdr, ty, nm) in [("impl<'a, T> GenericReadStorage for ReadStorage<'a, T>", "&'x ReadStorage<'a, T>", 'read'),
                          ("impl<'a: 'b, 'b, T> GenericReadStorage for &'b ReadStorage<'a, T>", "&'x &'b ReadStorage<'a, T>", 'read_ref')]:
        u.fn(GN, [hdr, 'fn get'], ret='r', props='C03 C04', free='generic_%s_get' % nm, key='GenericReadStorage(%s)::get' % nm,
             rules=[('N12', r'fn get\(&self,', "fn get<'a: 'b, 'b, 'x, T: Component>(self_: %s," % ty), ('N8', r'Option<&Self::Component>', "Option<&'x T>")] + SELF_,
             requires=[E('data_wf', 'self_.data.wf()'), E('ents', 'ent_ok(self_.entities)')], ensures=GR_ENS('self_'))
    for (hdr, ty, nm) in [("impl<'a, T> GenericReadStorage for WriteStorage<'a, T>", "&'x WriteStorage<'a, T>", 'write'),
                          ("impl<'a: 'b, 'b, T> GenericReadStorage for &'b WriteStorage<'a, T>", "&'x &'b WriteStorage<'a, T>", 'write_ref')]:
        u.fn(GN, [hdr, 'fn get'], ret='r', props='C03 C04', free='generic_%s_get' % nm, key='GenericReadStorage(%s)::get' % nm,
             rules=[('N12', r'fn get\(&self,', "fn get<'a: 'b, 'b, 'x, T: Component>(self_: %s," % ty), ('N8', r'Option<&Self::Component>', "Option<&'x T>")] + SELF_,
             requires=[E('data_wf', 'old(self_.data).wf()'), E('ents', 'ent_ok(self_.entities)')], ensures=GR_ENS('old(self_)') if False else
             [E('stale', '!live(self_.entities, entity) ==> r is None', 'C03'),
              E('map', 'r == (if old(self_.data)@.dom().contains(entity.0) && live(self_.entities, entity) { Some(&old(self_.data)@[entity.0]) } else { None })', 'C04')])
    # ---- is_empty / negation / restricted views
    for (hdr, tag) in [(HR, '&'), (HW, '&mut')]:
        D = 'self.data' if tag == '&' else 'old(self.data)'
        u.fn(S, [SIMPL, 'fn is_empty'], ret='r', props='C04', impl_header=hdr, key='Storage(%s)::is_empty' % tag, rules=N8,
             ensures=[E('map', 'r == (%s@.dom() =~= Set::<Index>::empty())' % D)])
    u.struct(S, ['struct AntiStorage'])
    u.fn(S, ["impl<'a, 'e, T, D> Not for &'a Storage<'e, T, D>", 'fn not'], ret='r', props='C06', key='Storage(&)::not',
         impl_header="impl<'e, 'd, T> Storage<'e, T, &'d MaskedStorage<T>> where T: Component,",
         rules=[('N12', r'fn not\(self\) -> Self::Output', "fn not<'a>(&'a self) -> AntiStorage<'a>")],
         ensures=[E('mask', 'r.0@ == self.data.mask@')])
    u.struct('src/storage/restrict.rs', ['struct RestrictedStorage'])
    u.fn('src/storage/restrict.rs', ["impl<T, D> Storage<'_, T, D>", 'fn restrict'], ret='r', props='C13', key='Storage(&)::restrict', nth=0,
         impl_header="impl<'e, 'd, T> Storage<'e, T, &'d MaskedStorage<T>> where T: Component,",
         ensures=[E('same', '*r.bitset == self.data.mask && *r.data == self.data.inner && **r.entities == *self.entities')])
    u.fn('src/storage/restrict.rs', ["impl<T, D> Storage<'_, T, D>", 'fn restrict_mut'], ret='r', props='C13', key='Storage(&mut)::restrict_mut',
         impl_header=HW,
         ensures=[E('same', '*r.bitset == old(self).data.mask && *r.data == old(self).data.inner && **r.entities == *old(self).entities'),
                  E('final', 'final(self).data.inner == *final(r.data) && final(self).data.mask == old(self).data.mask')])
    # ---- restricted storages (src/storage/restrict.rs): paired items
    RS = 'src/storage/restrict.rs'
    u.struct(RS, ['struct PairedStorageRead'])
    u.struct(RS, ['struct PairedStorageWriteExclusive'])
    PR = "impl<'rf, C> PairedStorageRead<'rf, C>"
    PW = "impl<'rf, C> PairedStorageWriteExclusive<'rf, C>"
    C8 = [('N8', r"AccessMutReturn<'_, C>", '&mut C')]
    # paired items exist only for indices the join took from the mask: mask/storage agree, own index is a member
    def preq(s_, own=True):
        r = [E('agree', 'forall|i: Index| #![trigger %s.bitset@.contains(i)] #![trigger %s.storage.has(i)] %s.bitset@.contains(i) <==> %s.storage.has(i)' % (s_, s_, s_, s_)),
             E('ents', 'ent_ok(*%s.entities)' % s_)]
        if own:
            r.append(E('member', '%s.bitset@.contains(%s.index)' % (s_, s_)))
        return r
    # ---- the SHARED paired item (`(&mut s.restrict_mut()).join()` / `.par_join()`) and its raw-sharing handle. N3: SharedGetOnly holds
    # `&'a mut S`; `get(this: &Self)` / `get_mut(this: &Self)` return references tied to the borrow of the handle; `shared_get_mut` is
    # the kind's `get_mut`. `duplicate` (several handles to one storage, the reason for `unsafe`) is NOT modelled.
    SO = ['mod shared_get_only']
    u.struct(RS, SO + ['struct SharedGetOnly'], rules=[('N3', r"\(&'a S, PhantomData<T>\)", "(&'a mut S, PhantomData<T>)")])
    SOI = "impl<'a, T, S> SharedGetOnly<'a, T, S>"
    u.fn(RS, SO + [SOI, 'fn new'], ret='r', props='C13 C07', key='SharedGetOnly::new',
         ensures=[E('same', '*r.0 == *old(storage) && *final(r.0) == *final(storage)')])
    u.fn(RS, SO + [SOI, 'fn get'], ret='r', props='C13 C07', key='SharedGetOnly::get', impl_header="impl<'a, T, S: UnprotectedStorage<T>> SharedGetOnly<'a, T, S>",
         rules=[('N3', r"unsafe fn get\(this: &Self, id: Index\) -> &'a T", "unsafe fn get<'next>(this: &'next Self, id: Index) -> &'next T"), ('N3', r'where\s+S: UnprotectedStorage<T>,', '')],
         requires=[E('present', 'this.0.has(id)')],
         ensures=[E('val', '*r == old(this.0).val(id)')])
    u.fn(RS, SO + [SOI, 'fn get_mut'], ret='r', props='C13 C07 C12', key='SharedGetOnly::get_mut', impl_header="impl<'a, T, S: UnprotectedStorage<T>> SharedGetOnly<'a, T, S>",
         rules=[('N3', r"this: &Self,", "this: &'next mut Self,"), ('N3', r'unsafe fn get_mut\(', "unsafe fn get_mut<'next>("),
                ('N8', r"<S as UnprotectedStorage<T>>::AccessMut<'a>", "&'next mut T"), ('N3', r'where\s+S: SharedGetMutStorage<T>,', ''),
                ('N3', r'this\.0\.shared_get_mut\(id\)', 'this.0.get_mut(id)')],
         requires=[E('present', 'old(this).0.has(id)')],
         ensures=[E('item', '*r == old(this).0.val(id) && final(this).0.val(id) == *final(r)'),
                  E('only_own', '(forall|j: Index| #![trigger final(this).0.has(j)] final(this).0.has(j) == old(this).0.has(j)) && (forall|j: Index| #![trigger final(this).0.val(j)] j != id ==> final(this).0.val(j) == old(this).0.val(j))'),
                  E('events', 'final(this).0.log() == old(this).0.log() + old(this).0.ev_get_mut(id)', 'C12 C13')])
    u.struct(RS, ['struct PairedStorageWriteShared'])
    PS = "impl<'rf, C> PairedStorageWriteShared<'rf, C>"
    PSH = "impl<'rf, C> PairedStorageWriteShared<'rf, C> where C: Component,"
    u.fn(RS, [PS, 'fn get'], ret='r', props='C13', key='PairedStorageWriteShared::get', impl_header=PSH,
         requires=[E('member', 'self.storage.0.has(self.index)')],
         ensures=[E('val', '*r == old(self.storage.0).val(self.index)')])
    u.fn(RS, [PS, 'fn get_mut'], ret='r', props='C13 C12', key='PairedStorageWriteShared::get_mut', impl_header=PSH,
         rules=C8 + [('N3', r'SharedGetOnly::get_mut\(&self\.storage,', 'SharedGetOnly::get_mut(&mut self.storage,')],
         requires=[E('member', 'old(self).storage.0.has(old(self).index)')],
         ensures=[E('val', '*r == old(self).storage.0.val(old(self).index)'),
                  E('only_own', 'final(self).index == old(self).index && final(self).storage.0.val(old(self).index) == *final(r) && (forall|j: Index| #![trigger final(self).storage.0.has(j)] final(self).storage.0.has(j) == old(self).storage.0.has(j)) && (forall|j: Index| #![trigger final(self).storage.0.val(j)] j != old(self).index ==> final(self).storage.0.val(j) == old(self).storage.0.val(j))', 'C13'),
                  E('events', 'final(self).storage.0.log() == old(self).storage.0.log() + old(self).storage.0.ev_get_mut(old(self).index)', 'C12 C13')])
    u.fn(RS, [PR, 'fn get'], ret='r', props='C13', key='PairedStorageRead::get', requires=preq('self'),
         ensures=[E('val', '*r == self.storage.val(self.index)')])
    u.fn(RS, [PR, 'fn get_other'], ret='r', props='C03 C13', key='PairedStorageRead::get_other', requires=preq('self', False),
         ensures=[E('stale', '!live(*self.entities, entity) ==> r is None', 'C03'),
                  E('rule', 'r == (if self.bitset@.contains(entity.0) && live(*self.entities, entity) { Some(&self.storage.val(entity.0)) } else { None })', 'C13 C03')])
    u.fn(RS, [PW, 'fn get'], ret='r', props='C13', key='PairedStorageWriteExclusive::get', rules=C8,
         requires=[E('agree', 'forall|i: Index| #![trigger self.bitset@.contains(i)] #![trigger old(self.storage).has(i)] self.bitset@.contains(i) <==> old(self.storage).has(i)'), E('member', 'self.bitset@.contains(self.index)')],
         ensures=[E('val', '*r == old(self.storage).val(self.index)')])
    WREQ = [E('agree', 'forall|i: Index| #![trigger old(self).bitset@.contains(i)] #![trigger old(self).storage.has(i)] old(self).bitset@.contains(i) <==> old(self).storage.has(i)'),
            E('ents', 'ent_ok(*old(self).entities)')]
    WFRAME = lambda idx: [
        E('has_same', 'forall|j: Index| #![trigger final(self).storage.has(j)] final(self).storage.has(j) == old(self).storage.has(j)', 'C13'),
        E('index_same', 'final(self).index == old(self).index && final(self).bitset == old(self).bitset && final(self).entities == old(self).entities', 'C13')]
    u.fn(RS, [PW, 'fn get_mut'], ret='r', props='C13 C12', key='PairedStorageWriteExclusive::get_mut', rules=C8,
         requires=WREQ + [E('member', 'old(self).bitset@.contains(old(self).index)')],
         ensures=[E('val', '*r == old(self).storage.val(old(self).index)'),
                  E('only_own', 'final(self).storage.val(old(self).index) == *final(r) && forall|j: Index| #![trigger final(self).storage.val(j)] j != old(self).index ==> final(self).storage.val(j) == old(self).storage.val(j)', 'C13'),
                  E('events', 'final(self).storage.log() == old(self).storage.log() + old(self).storage.ev_get_mut(old(self).index)', 'C12 C13')] + WFRAME('old(self).index'))
    u.fn(RS, [PW, 'fn get_other'], ret='r', props='C03 C13', key='PairedStorageWriteExclusive::get_other', rules=C8,
         requires=[E('agree', 'forall|i: Index| #![trigger self.bitset@.contains(i)] #![trigger old(self.storage).has(i)] self.bitset@.contains(i) <==> old(self.storage).has(i)'), E('ents', 'ent_ok(*self.entities)')],
         ensures=[E('stale', '!live(*self.entities, entity) ==> r is None', 'C03'),
                  E('rule', 'r == (if self.bitset@.contains(entity.0) && live(*self.entities, entity) { Some(&old(self.storage).val(entity.0)) } else { None })', 'C13 C03')])
    u.fn(RS, [PW, 'fn get_other_mut'], ret='r', props='C03 C13 C12', key='PairedStorageWriteExclusive::get_other_mut', rules=C8,
         requires=WREQ,
         ensures=[E('stale', '!live(*old(self).entities, entity) ==> r is None && final(self).storage.log() == old(self).storage.log() && forall|j: Index| #![trigger final(self).storage.val(j)] final(self).storage.val(j) == old(self).storage.val(j)', 'C03 C13'),
                  E('absent', '!old(self).bitset@.contains(entity.0) ==> r is None && final(self).storage.log() == old(self).storage.log() && forall|j: Index| #![trigger final(self).storage.val(j)] final(self).storage.val(j) == old(self).storage.val(j)', 'C13'),
                  E('present', 'old(self).bitset@.contains(entity.0) && live(*old(self).entities, entity) ==> r is Some && *r.unwrap() == old(self).storage.val(entity.0) && final(self).storage.val(entity.0) == *final(r.unwrap()) && forall|j: Index| #![trigger final(self).storage.val(j)] j != entity.0 ==> final(self).storage.val(j) == old(self).storage.val(j)', 'C13'),
                  E('events', 'old(self).bitset@.contains(entity.0) && live(*old(self).entities, entity) ==> final(self).storage.log() == old(self).storage.log() + old(self).storage.ev_get_mut(entity.0)', 'C12 C13')] + WFRAME(''))
    # ---- drain (src/storage/drain.rs)
    DR = 'src/storage/drain.rs'
    u.struct(DR, ['struct Drain'])
    u.fn(S, [SIMPL, 'fn drain'], ret='r', props='C04', impl_header=HW, key='Storage(&mut)::drain', rules=N8 + [('N1', r'Drain<T>', "Drain<'_, T>")],
         ensures=[E('same', '*r.data == *old(self).data && *final(self).data == *final(r.data)')])
    for (hdr, nm) in [("impl<'a, T> Join for Drain<'a, T>", 'join'), ("impl<'a, T> LendJoin for Drain<'a, T>", 'lend_join')]:
        u.fn(DR, [hdr, 'fn get'], ret='r', props='C04 C06 C12', free='drain_%s_get' % nm, key='Drain_%s::get' % nm,
             rules=[('N12', r"fn get(<'next>)?\(", "fn get<'a, 'next, T: Component>("), ('N12', r'Self::Value', "&'a mut MaskedStorage<T>")],
             requires=[E('wf', 'old(value).wf()'), E('inmask', 'old(value)@.dom().contains(id)')],
             ensures=[E('ret', 'r == old(value)@[id]'), E('map', 'final(value)@ == old(value)@.remove(id)'), E('wf', 'final(value).wf()'),
                      E('events', 'final(value).log() == old(value).log() + old(value).inner.ev_remove(id)', 'C12')])
    return u
