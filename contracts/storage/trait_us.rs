// Trait-level contract of `UnprotectedStorage<T>` (src/storage/mod.rs:763-858): SPECIFICATION of the required
// methods (no bodies exist in the repository for them); the default method `drop` that follows is extracted.
// N8: the generic associated type `AccessMut<'a>` is fixed to `&'a mut T`.

    // abstract content: which indices hold a value, and which
    spec fn has(&self, id: Index) -> bool;
    spec fn val(&self, id: Index) -> T;
    // representation invariant of the implementor (true for kinds without one); only `insert` needs it, every
    // operation preserves it
    spec fn us_wf(&self) -> bool;
    // change-tracking effect (empty for plain kinds): the events written so far, and what each raw operation appends
    spec fn log(&self) -> Seq<ComponentEvent>;
    spec fn ev_insert(&self, id: Index) -> Seq<ComponentEvent>;
    spec fn ev_remove(&self, id: Index) -> Seq<ComponentEvent>;
    spec fn ev_get_mut(&self, id: Index) -> Seq<ComponentEvent>;

    unsafe fn clean<B>(&mut self, has_: B)
        where B: BitSetLike
        requires forall|i: Index| has_.bview().contains(i) <==> old(self).has(i),
        ensures
            /*@L:trait.clean.empty*/ forall|i: Index| !final(self).has(i) /*@E*/,
            /*@L:trait.clean.wf*/ old(self).us_wf() ==> final(self).us_wf() /*@E*/,
            /*@L:trait.clean.events*/ final(self).log() == old(self).log() && (forall|j: Index| #![trigger final(self).ev_insert(j)] #![trigger final(self).ev_remove(j)] #![trigger final(self).ev_get_mut(j)] final(self).ev_insert(j) == old(self).ev_insert(j) && final(self).ev_remove(j) == old(self).ev_remove(j) && final(self).ev_get_mut(j) == old(self).ev_get_mut(j)) /*@E*/;

    unsafe fn get(&self, id: Index) -> (r: &T)
        requires self.has(id),
        ensures /*@L:trait.get.val*/ *r == self.val(id) /*@E*/;

    unsafe fn get_mut(&mut self, id: Index) -> (r: &mut T)
        requires old(self).has(id),
        ensures
            /*@L:trait.get_mut.val*/ *r == old(self).val(id) && final(self).val(id) == *final(r) /*@E*/,
            /*@L:trait.get_mut.wf*/ old(self).us_wf() ==> final(self).us_wf() /*@E*/,
            /*@L:trait.get_mut.frame*/ (forall|j: Index| #![trigger final(self).has(j)] final(self).has(j) == old(self).has(j)) && (forall|j: Index| #![trigger final(self).val(j)] j != id ==> final(self).val(j) == old(self).val(j)) /*@E*/,
            /*@L:trait.get_mut.events*/ final(self).log() == old(self).log() + old(self).ev_get_mut(id) && (forall|j: Index| #![trigger final(self).ev_insert(j)] #![trigger final(self).ev_remove(j)] #![trigger final(self).ev_get_mut(j)] final(self).ev_insert(j) == old(self).ev_insert(j) && final(self).ev_remove(j) == old(self).ev_remove(j) && final(self).ev_get_mut(j) == old(self).ev_get_mut(j)) /*@E*/;

    unsafe fn insert(&mut self, id: Index, value: T)
        requires !old(self).has(id), old(self).us_wf(),
        ensures
            /*@L:trait.insert.wf*/ final(self).us_wf() /*@E*/,
            /*@L:trait.insert.val*/ final(self).has(id) && final(self).val(id) == value /*@E*/,
            /*@L:trait.insert.frame*/ (forall|j: Index| #![trigger final(self).has(j)] j != id ==> final(self).has(j) == old(self).has(j)) && (forall|j: Index| #![trigger final(self).val(j)] j != id ==> final(self).val(j) == old(self).val(j)) /*@E*/,
            /*@L:trait.insert.events*/ final(self).log() == old(self).log() + old(self).ev_insert(id) && (forall|j: Index| #![trigger final(self).ev_insert(j)] #![trigger final(self).ev_remove(j)] #![trigger final(self).ev_get_mut(j)] final(self).ev_insert(j) == old(self).ev_insert(j) && final(self).ev_remove(j) == old(self).ev_remove(j) && final(self).ev_get_mut(j) == old(self).ev_get_mut(j)) /*@E*/;

    unsafe fn remove(&mut self, id: Index) -> (r: T)
        requires old(self).has(id),
        ensures
            /*@L:trait.remove.val*/ r == old(self).val(id) && !final(self).has(id) /*@E*/,
            /*@L:trait.remove.wf*/ old(self).us_wf() ==> final(self).us_wf() /*@E*/,
            /*@L:trait.remove.frame*/ (forall|j: Index| #![trigger final(self).has(j)] j != id ==> final(self).has(j) == old(self).has(j)) && (forall|j: Index| #![trigger final(self).val(j)] j != id ==> final(self).val(j) == old(self).val(j)) /*@E*/,
            /*@L:trait.remove.events*/ final(self).log() == old(self).log() + old(self).ev_remove(id) && (forall|j: Index| #![trigger final(self).ev_insert(j)] #![trigger final(self).ev_remove(j)] #![trigger final(self).ev_get_mut(j)] final(self).ev_insert(j) == old(self).ev_insert(j) && final(self).ev_remove(j) == old(self).ev_remove(j) && final(self).ev_get_mut(j) == old(self).ev_get_mut(j)) /*@E*/;

