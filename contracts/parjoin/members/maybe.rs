    type Mask = BitSetAll;
    type Type = Option<<T as ParJoin>::Type>;
    type Value = (<T as ParJoin>::Mask, <T as ParJoin>::Value);
    // optional member: never constrains the intersection; presence is decided per index from the inner mask
    spec fn pmask(&self) -> Set<u32> { all_u32() }
    spec fn popen_pre(&self) -> bool { self.0.popen_pre() }
    spec fn pget_pre(v: &Self::Value, id: Index) -> bool { v.0.bview().contains(id) ==> T::pget_pre(&v.1, id) }
    spec fn pget_post(v: &Self::Value, id: Index, r: &Self::Type) -> bool {
        &&& *r is Some <==> v.0.bview().contains(id)
        &&& *r is Some ==> T::pget_post(&v.1, id, &r->Some_0)
    }
