    type Mask = BitSetNot<&'a BitSet>;
    type Type = ();
    type Value = ();
    spec fn pmask(&self) -> Set<u32> { all_u32() - self.0@ }
    spec fn popen_pre(&self) -> bool { true }
    spec fn pget_pre(v: &Self::Value, id: Index) -> bool { true }
    spec fn pget_post(v: &Self::Value, id: Index, r: &Self::Type) -> bool { true }
