    type Mask = &'rf BitSet;
    type Type = PairedStorageRead<'rf, C>;
    type Value = (&'rf C::Storage, &'rf Fetch<'rf, EntitiesRes>, &'rf BitSet);
    spec fn pmask(&self) -> Set<u32> { self.bitset@ }
    spec fn popen_pre(&self) -> bool {
        &&& forall|i: Index| #![trigger self.bitset@.contains(i)] #![trigger self.data.has(i)] self.bitset@.contains(i) <==> self.data.has(i)
        &&& ent_ok(*self.entities)
    }
    spec fn pget_pre(v: &Self::Value, id: Index) -> bool {
        &&& forall|i: Index| #![trigger v.2@.contains(i)] #![trigger v.0.has(i)] v.2@.contains(i) <==> v.0.has(i)
        &&& ent_ok(*v.1)
        &&& v.2@.contains(id)
    }
    spec fn pget_post(v: &Self::Value, id: Index, r: &Self::Type) -> bool {
        r.index == id && r.storage == v.0 && r.bitset == v.2 && r.entities == v.1
    }
