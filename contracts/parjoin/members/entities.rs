    type Mask = BitSetOr<&'a BitSet, &'a AtomicBitSet>;
    type Type = Entity;
    type Value = &'a EntitiesRes;
    spec fn pmask(&self) -> Set<u32> { self.alloc.alive@ + self.alloc.raised@ }
    spec fn popen_pre(&self) -> bool { self.alloc.wf() && self.alloc.headroom_n(2) }
    spec fn pget_pre(v: &Self::Value, id: Index) -> bool { v.alloc.wf() && v.alloc.headroom_n(2) && v.alloc.occ(id) }
    // the item is the index's current handle (the one is_alive accepts), as in the sequential member
    spec fn pget_post(v: &Self::Value, id: Index, r: &Self::Type) -> bool { r.0 == id && r.1.0@ == v.alloc.cur_gen(id) }
