    type Mask = &'a BitSet;
    type Type = &'a T;
    type Value = &'a T::Storage;
    spec fn pmask(&self) -> Set<u32> { self.data.mask@ }
    spec fn popen_pre(&self) -> bool { self.data.wf() }
    spec fn pget_pre(v: &Self::Value, id: Index) -> bool { v.has(id) }
    // the item is exactly the component stored for that index: what the sequential member returns
    spec fn pget_post(v: &Self::Value, id: Index, r: &Self::Type) -> bool { **r == v.val(id) }
