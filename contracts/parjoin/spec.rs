// C07 (reduced): the specs-side half of a parallel join.
//  (1) every ParJoin member opens the SAME mask and returns the SAME item per index as its sequential Join counterpart
//      (lemmas below tie the two trait-level specifications together member by member);
//  (2) JoinProducer::split hands rayon two producers whose keys partition the original keys and that share the opened values;
//      JoinProducer::fold_with feeds the folder exactly one item per remaining key, the item being ParJoin::get(values, key).
// Thread pools, work stealing and hibitset's BitProducer::split are assumed (prelude/rayon.rs).

impl<'a, J: ParJoin> JoinProducer<'a, J> {
    // every key this producer still owns may be fetched, and keys ascend (hence are distinct)
    pub open spec fn pwf(&self) -> bool {
        &&& ascending(self.keys.0.rem())
        &&& forall|k: int| 0 <= k < self.keys.0.rem().len() ==> J::pget_pre(self.values, #[trigger] self.keys.0.rem()[k])
    }
    pub open spec fn pkeys(&self) -> Seq<u32> { self.keys.0.rem() }
}

// "delivers the same items as sequential join": member by member the parallel specification IS the sequential one
//@props C07
pub proof fn lemma_par_same_storage_ref<'a, 'e, 'd, T: Component>(s: &'a Storage<'e, T, &'d MaskedStorage<T>>, v: &'a T::Storage, id: Index, r: &'a T)
    ensures
        <&'a Storage<'e, T, &'d MaskedStorage<T>> as ParJoin>::pmask(&s) == <&'a Storage<'e, T, &'d MaskedStorage<T>> as Join>::jmask(&s),
        <&'a Storage<'e, T, &'d MaskedStorage<T>> as ParJoin>::popen_pre(&s) == <&'a Storage<'e, T, &'d MaskedStorage<T>> as Join>::open_pre(&s),
        <&'a Storage<'e, T, &'d MaskedStorage<T>> as ParJoin>::pget_pre(&v, id) == <&'a Storage<'e, T, &'d MaskedStorage<T>> as Join>::get_pre(&v, id),
        <&'a Storage<'e, T, &'d MaskedStorage<T>> as ParJoin>::pget_post(&v, id, &r) == <&'a Storage<'e, T, &'d MaskedStorage<T>> as Join>::get_post(&v, id, &r, &v),
{}
//@props C07
pub proof fn lemma_par_same_anti<'a>(s: AntiStorage<'a>, id: Index)
    ensures
        <AntiStorage<'a> as ParJoin>::pmask(&s) == <AntiStorage<'a> as Join>::jmask(&s),
        <AntiStorage<'a> as ParJoin>::pget_post(&(), id, &()) == <AntiStorage<'a> as Join>::get_post(&(), id, &(), &()),
{}
//@props C07
pub proof fn lemma_par_same_entities<'a>(s: &'a EntitiesRes, id: Index, r: Entity)
    ensures
        <&'a EntitiesRes as ParJoin>::pmask(&s) == <&'a EntitiesRes as Join>::jmask(&s),
        <&'a EntitiesRes as ParJoin>::popen_pre(&s) == <&'a EntitiesRes as Join>::open_pre(&s),
        <&'a EntitiesRes as ParJoin>::pget_pre(&s, id) == <&'a EntitiesRes as Join>::get_pre(&s, id),
        <&'a EntitiesRes as ParJoin>::pget_post(&s, id, &r) == <&'a EntitiesRes as Join>::get_post(&s, id, &r, &s),
{}
//@props C07
pub proof fn lemma_par_same_maybe<T: ParJoin + Join>(s: MaybeJoin<T>)
    ensures <MaybeJoin<T> as ParJoin>::pmask(&s) == <MaybeJoin<T> as Join>::jmask(&s),
{}

// split + fold_with together: whatever way rayon splits, the keys handed to the leaves partition the original keys
//@props C07
pub proof fn lemma_partition_covers(whole: Seq<u32>, a: Seq<u32>, b: Seq<u32>)
    requires ascending(whole), is_partition(whole, a, b),
    ensures
        a.no_duplicates() && b.no_duplicates(),
        forall|i: u32| whole.contains(i) ==> (a.contains(i) != b.contains(i)),
        forall|i: u32| a.contains(i) || b.contains(i) ==> whole.contains(i),
{
    assert forall|x: int, y: int| 0 <= x < a.len() && 0 <= y < a.len() && x != y implies a[x] != a[y] by {
        if x < y { assert(a[x] < a[y]); } else { assert(a[y] < a[x]); }
    }
    assert forall|x: int, y: int| 0 <= x < b.len() && 0 <= y < b.len() && x != y implies b[x] != b[y] by {
        if x < y { assert(b[x] < b[y]); } else { assert(b[y] < b[x]); }
    }
}
