// Trait-level contract of `ParJoin` (src/join/par_join.rs): the same vocabulary as `Join`, except that `get` takes the
// opened value by SHARED reference (so it cannot change it) — which is what allows rayon to call it from several threads.

    type Type;
    type Value;
    type Mask: BitSetLike;
    // the set of indices this member contributes to the intersection
    spec fn pmask(&self) -> Set<u32>;
    spec fn pget_pre(v: &Self::Value, id: Index) -> bool;
    // what `get` returns for id
    spec fn pget_post(v: &Self::Value, id: Index, r: &Self::Type) -> bool;
    spec fn popen_pre(&self) -> bool;

    unsafe fn open(self) -> (r: (Self::Mask, Self::Value))
        requires self.popen_pre(),
        ensures
            /*@L:trait.par_open.mask*/ r.0.bview() == self.pmask() /*@E*/,
            /*@L:trait.par_open.pre*/ forall|id: Index| #![trigger Self::pget_pre(&r.1, id)] self.pmask().contains(id) ==> Self::pget_pre(&r.1, id) /*@E*/;

    unsafe fn get(value: &Self::Value, id: Index) -> (r: Self::Type)
        requires Self::pget_pre(value, id),
        ensures
            /*@L:trait.par_get.item*/ Self::pget_post(value, id, &r) /*@E*/;

