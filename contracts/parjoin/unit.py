# Unit `parjoin`: the specs-side half of a parallel join against a trait-level ParJoin contract (C07, reduced)
import importlib.util, os
from vx.unit import Unit, E

_here = os.path.dirname(os.path.abspath(__file__))
_s = importlib.util.spec_from_file_location('unit_join_base', os.path.join(_here, '..', 'join', 'unit.py'))
_join = importlib.util.module_from_spec(_s)
_s.loader.exec_module(_join)

PJ = 'src/join/par_join.rs'
SM = 'src/storage/mod.rs'
X = '@expanded'


def build():
    u = _join.build()
    u.name = 'parjoin'
    u.prelude = u.prelude + [('prelude/rayon.rs', 'private')]
    u.spec = u.spec + ['parjoin/spec.rs']
    u.files = u.files + [PJ]
    u.groups['trait_par_join'] = dict(header='unsafe trait ParJoin: Sized', pre='parjoin/trait_par_join.rs')
    u.fn(PJ, ['trait ParJoin', 'fn is_unconstrained'], ret='r', props='C07', group='trait_par_join', key='ParJoin::is_unconstrained(default)')
    # ---- the producer rayon drives
    u.struct(PJ, ['struct JoinProducer'], rules=[('N8', r"keys: BitProducer<'a, J::Mask>", "keys: BitProducer<'a, J::Mask>"),
                                               ('N1', r'where\s+J: ParJoin \+ Send,\s+J::Mask: Send \+ Sync \+ \'a,\s+J::Type: Send,\s+J::Value: Send \+ Sync \+ \'a,', 'where J: ParJoin,')])
    JP = "impl<'a, J> JoinProducer<'a, J>"
    BOUNDS = [('N1', r"where\s+J: ParJoin \+ Send,\s+J::Type: Send,\s+J::Value: 'a \+ Send \+ Sync,\s+J::Mask: 'a \+ Send \+ Sync,", 'where J: ParJoin,')]
    u.fn(PJ, [JP, 'fn new'], ret='r', props='C07', key='JoinProducer::new', impl_header="impl<'a, J> JoinProducer<'a, J> where J: ParJoin,",
         ensures=[E('same', 'r.keys == keys && r.values == values')])
    UP = "impl<'a, J> UnindexedProducer for JoinProducer<'a, J>"
    u.fn(PJ, [UP, 'fn split'], ret='r', props='C07', key='JoinProducer::split', impl_header="impl<'a, J> JoinProducer<'a, J> where J: ParJoin,",
         rules=[('N12', r'Option<Self>', "Option<JoinProducer<'a, J>>")],
         closures={'map:|o|': dict(params="o: BitProducer<'a, J::Mask>", ret="r__: JoinProducer<'a, J>",
                                   ensures=[('made', 'r__.keys == o && r__.values == values')])},
         requires=[E('pwf', 'self.pwf()')],
         ensures=[E('whole', 'r.1 is None ==> r.0.pkeys() == self.pkeys()'),
                  E('partition', 'r.1 is Some ==> is_partition(self.pkeys(), r.0.pkeys(), r.1->Some_0.pkeys())'),
                  E('values', 'r.0.values == self.values && (r.1 is Some ==> r.1->Some_0.values == self.values)'),
                  E('pwf', 'r.0.pwf() && (r.1 is Some ==> r.1->Some_0.pwf())')],
         hints=[('before_tail', None, 'proof { if second is Some { let a = first.keys.0.rem(); let b = second->Some_0.keys.0.rem(); let w = self.keys.0.rem(); '
                 'assert forall|k: int| 0 <= k < a.len() implies J::pget_pre(self.values, #[trigger] a[k]) by { assert(a.contains(a[k])); assert(w.contains(a[k])); let j = choose|j: int| 0 <= j < w.len() && w[j] == a[k]; assert(J::pget_pre(self.values, w[j])); } '
                 'assert forall|k: int| 0 <= k < b.len() implies J::pget_pre(self.values, #[trigger] b[k]) by { assert(b.contains(b[k])); assert(w.contains(b[k])); let j = choose|j: int| 0 <= j < w.len() && w[j] == b[k]; assert(J::pget_pre(self.values, w[j])); } } }')])
    u.fn(PJ, [UP, 'fn fold_with'], ret='r', props='C07', key='JoinProducer::fold_with', impl_header="impl<'a, J> JoinProducer<'a, J> where J: ParJoin,",
         rules=[('N12', r'F: Folder<Self::Item>', 'F: Folder<J::Type>')],
         closures={'map:|idx|': dict(params='idx: u32', ret='r__: J::Type',
                                     requires=[('pre', 'J::pget_pre(values, idx)')],
                                     ensures=[('item', 'J::pget_post(values, idx, &r__)')])},
         requires=[E('pwf', 'self.pwf()')],
         ensures=[E('count', 'r.consumed().len() == folder.consumed().len() + self.pkeys().len()'),
                  E('prefix', 'r.consumed().subrange(0, folder.consumed().len() as int) == folder.consumed()'),
                  E('items', 'forall|k: int| 0 <= k < self.pkeys().len() ==> J::pget_post(self.values, #[trigger] self.pkeys()[k], &r.consumed()[folder.consumed().len() + k])')])
    # ---- the driver: opens the member, builds the root producer over ALL members of the opened mask, hands it to rayon
    u.struct(PJ, ['struct JoinParIter'])
    u.fn(PJ, ['impl<J> ParallelIterator for JoinParIter<J>', 'fn drive_unindexed'], ret='r', props='C07', key='JoinParIter::drive_unindexed',
         impl_header='impl<J> JoinParIter<J> where J: ParJoin,',
         rules=[('N12', r'C: UnindexedConsumer<Self::Item>', 'C: UnindexedConsumer<J::Type>'), ('N10', r'\(&keys\)\.iter\(\)', 'ref_iter(&keys)')],
         requires=[E('open_pre', 'self.0.popen_pre()')],
         ensures=[E('root_keys', 'bridged::<C::Result, J::Value>(r).0 == sorted_seq(self.0.pmask())'),
                  E('fetchable', 'forall|id: Index| self.0.pmask().contains(id) ==> J::pget_pre(&bridged::<C::Result, J::Value>(r).1, id)')],
         hints=[('start', None, 'broadcast use axiom_sorted_seq;'),
                ('before', 'bridge_unindexed(', 'proof { let s = sorted_seq(self.0.pmask()); assert forall|k: int| 0 <= k < s.len() implies J::pget_pre(&values, #[trigger] s[k]) by { assert(s.contains(s[k])); } }')])
    u.fn(PJ, ['trait ParJoin', 'fn par_join'], ret='r', props='C07', free='par_join_default', key='ParJoin::par_join(default)',
         rules=[('N12', r'fn par_join\(self\) -> JoinParIter<Self>\s*where\s*Self: Sized,', 'fn par_join<J: ParJoin>(self_: J) -> JoinParIter<J>'), ('N12', r'Self::is_unconstrained', 'J::is_unconstrained'), ('N12', r'JoinParIter\(self\)', 'JoinParIter(self_)')],
         ensures=[E('same', 'r.0 == self_')])
    # ---- members: REAL trait impls, each checked by Verus against the trait-level ParJoin contract
    def member(gname, header, pre_file, file, path_hdr, fns=('open', 'get'), rules=(), props='C07', extra_get=None):
        pre = open(os.path.join(_here, 'members', pre_file)).read()
        u.groups[gname] = dict(header=header, pre=pre, private=False)
        for f in fns:
            labels = dict(open=['mask', 'pre'], get=['item'], is_unconstrained=[])[f]
            extra = dict(extra_get or {}) if f == 'get' else {}
            u.fn(file, [path_hdr, 'fn ' + f], props=props, group=gname, key='%s::%s' % (gname, f), rules=list(rules), **extra,
                 hint_obligations=[E('trait.par_%s.%s' % (f, l), 'inherited postcondition of ParJoin::%s (%s)' % (f, l), props) for l in labels])
    member('pj_storage_ref', "unsafe impl<'a, 'e, 'd, T> ParJoin for &'a Storage<'e, T, &'d MaskedStorage<T>> where T: Component,",
           'storage_ref.rs', SM, "impl<'a, 'e, T, D> ParJoin for &'a Storage<'e, T, D>")
    member('pj_anti', "unsafe impl<'a> ParJoin for AntiStorage<'a>", 'anti.rs', SM, "impl<'a> ParJoin for AntiStorage<'a>",
           rules=[('N9', r'\(_: &\(\), _: Index\)', '(_v: &(), _i: Index)')])
    N15 = [('N15', r"\(mask, value\): &Self::Value, id: Index\) -> Self::Type \{", "v__: &Self::Value, id: Index) -> Self::Type { let mask = &v__.0; let value = &v__.1;")]
    member('pj_maybe', "unsafe impl<T> ParJoin for MaybeJoin<T> where T: ParJoin,", 'maybe.rs', 'src/join/maybe.rs', "impl<T> ParJoin for MaybeJoin<T>",
           fns=('open', 'get', 'is_unconstrained'), rules=N15)
    member('pj_entities', "unsafe impl<'a> ParJoin for &'a EntitiesRes", 'entities.rs', 'src/world/entity.rs', "impl<'a> ParJoin for &'a EntitiesRes",
           rules=[_join._storage._alloc.GEN_ONE_CLOSURE],
           extra_get=dict(closures={'map:|gen|': dict(params='gen: Generation', ret='r__: Generation',
                                                      requires=[('range', 'gen.0@ != 0 && gen.0@ > i32::MIN + 1')],
                                                      ensures=[('val', 'r__.0@ == (if gen.0@ > 0 { gen.0@ as int } else { 1 - gen.0@ })')])},
                          hints=[('start', None, 'proof { lemma_gid_facts(&v.alloc, id); }')]))
    NB = [('N8', r'self\.data\.borrow\(\)', 'self.data')]
    member('pj_restricted_ref', "unsafe impl<'rf, C> ParJoin for &'rf RestrictedStorage<'rf, C, &'rf C::Storage> where C: Component,",
           'restricted_ref.rs', 'src/storage/restrict.rs', "impl<'rf, C, S> ParJoin for &'rf RestrictedStorage<'rf, C, S>", rules=NB)
    # ---- macro-generated members (define_open!, define_bit_join!), from rustc's own expansion
    BITPRE = '''    type Type = Index;
    type Value = ();
    type Mask = %s;
    spec fn pmask(&self) -> Set<u32> { self.bview() }
    spec fn popen_pre(&self) -> bool { true }
    spec fn pget_pre(v: &Self::Value, id: Index) -> bool { true }
    spec fn pget_post(v: &Self::Value, id: Index, r: &Self::Type) -> bool { *r == id }
'''
    N9U = [('N9', r'\(_: &Self::Value, id: Index\)', '(_v: &Self::Value, id: Index)')]
    for (nm, gen, ty, bound) in [('bitset', '', 'BitSet', ''), ('bitset_ref', "'a", "&'a BitSet", ''),
                                 ('bitset_not', 'A', 'BitSetNot<A>', 'A: BitSetLike'), ('bitset_and', 'A, B', 'BitSetAnd<A, B>', 'A: BitSetLike, B: BitSetLike'),
                                 ('bitset_or', 'A, B', 'BitSetOr<A, B>', 'A: BitSetLike, B: BitSetLike')]:
        g = '<%s>' % gen if gen else ''
        hdr = 'unsafe impl%s ParJoin for %s%s' % (g, ty, (' where ' + bound + ',') if bound else '')
        gname = 'pj_%s' % nm
        u.groups[gname] = dict(header=hdr, pre=BITPRE % ty, private=False)
        for f in ('open', 'get'):
            labels = ['mask', 'pre'] if f == 'open' else ['item']
            u.fn(X, ['mod bitset', 'impl%s ParJoin for %s' % (g, ty), 'fn ' + f], props='C07', group=gname, key='%s::%s' % (gname, f), rules=N9U,
                 hint_obligations=[E('trait.par_%s.%s' % (f, l), 'inherited postcondition of ParJoin::%s (%s) for the bit-set member %s' % (f, l, ty), 'C07') for l in labels])
    # ---- resource-handle forwarding member (immutable_resource_join!): `&'a Fetch<'b, T>`; see unit join
    FWD = """    type Type = <&'a T as ParJoin>::Type;
    type Value = <&'a T as ParJoin>::Value;
    type Mask = <&'a T as ParJoin>::Mask;
    spec fn pmask(&self) -> Set<u32> { <&'a T as ParJoin>::pmask(&&***self) }
    spec fn popen_pre(&self) -> bool { <&'a T as ParJoin>::popen_pre(&&***self) }
    spec fn pget_pre(v: &Self::Value, id: Index) -> bool { <&'a T as ParJoin>::pget_pre(v, id) }
    spec fn pget_post(v: &Self::Value, id: Index, r: &Self::Type) -> bool { <&'a T as ParJoin>::pget_post(v, id, r) }
"""
    u.groups['pj_fetch'] = dict(header="unsafe impl<'a, 'b, T> ParJoin for &'a Fetch<'b, T> where &'a T: ParJoin,", pre=FWD, private=False)
    for f in ('open', 'get', 'is_unconstrained'):
        labels = dict(open=['mask', 'pre'], get=['item'], is_unconstrained=[])[f]
        u.fn(X, ['mod join', "impl<'a, 'b, T> ParJoin for &'a Fetch<'b, T>", 'fn ' + f], props='C07', group='pj_fetch', key='pj_fetch::%s' % f,
             rules=[('N10', r'self\.deref\(\)', '(&**self)')],
             hint_obligations=[E('trait.par_%s.%s' % (f, l), 'inherited postcondition of ParJoin::%s (%s) for the forwarding member &Fetch<T>' % (f, l), 'C07') for l in labels])
    LET = 'ABCD'
    def tuple_pre(n):
        ls = LET[:n]
        tys = ', '.join('%s::Type' % l for l in ls) + (',' if n == 1 else '')
        vals = ', '.join('%s::Value' % l for l in ls) + (',' if n == 1 else '')
        masks = ', '.join('%s::Mask' % l for l in ls) + (',' if n == 1 else '')
        jm = 'self.%d.pmask()' % (n - 1)
        for k in range(n - 2, -1, -1):
            jm = 'self.%d.pmask().intersect(%s)' % (k, jm)
        return ('    type Type = (%s);\n    type Value = (%s);\n    type Mask = <(%s) as BitAnd>::Value;\n' % (tys, vals, masks) +
                '    // as for the sequential tuple: intersection of the member masks, per-member get at the same index\n' +
                '    spec fn pmask(&self) -> Set<u32> { %s }\n' % jm +
                '    spec fn popen_pre(&self) -> bool { %s }\n' % ' && '.join('self.%d.popen_pre()' % k for k in range(n)) +
                '    spec fn pget_pre(v: &Self::Value, id: Index) -> bool { %s }\n' % ' && '.join('%s::pget_pre(&v.%d, id)' % (ls[k], k) for k in range(n)) +
                '    spec fn pget_post(v: &Self::Value, id: Index, r: &Self::Type) -> bool { %s }\n' % ' && '.join('%s::pget_post(&v.%d, id, &r.%d)' % (ls[k], k, k) for k in range(n)))
    for n in (1, 2, 3, 4):
        ls = LET[:n]
        gen = ', '.join(ls)
        tup = '(%s%s)' % (gen, ',' if n == 1 else '')
        n17 = [('N17', r'let &\(' + ', '.join('ref %s' % l for l in ls) + (',' if n == 1 else '') + r'\) = v;',
                ' '.join('let %s = &v.%d;' % (l, k) for k, l in enumerate(ls)))]
        masks = '(%s%s)' % (', '.join('<%s as ParJoin>::Mask' % l for l in ls), ',' if n == 1 else '')
        hdr = 'unsafe impl<%s> ParJoin for %s where %s, %s: BitAnd,' % (gen, tup, ', '.join('%s: ParJoin' % l for l in ls), masks)
        gname = 'pj_tuple%d' % n
        u.groups[gname] = dict(header=hdr, pre=tuple_pre(n), private=False)
        for f in ('open', 'get', 'is_unconstrained'):
            labels = dict(open=['mask', 'pre'], get=['item'], is_unconstrained=[])[f]
            u.fn(X, ['mod join', 'impl<%s> ParJoin for %s' % (gen, tup), 'fn ' + f], props='C07', group=gname, key='%s::%s' % (gname, f), rules=n17,
                 hint_obligations=[E('trait.par_%s.%s' % (f, l), 'inherited postcondition of ParJoin::%s (%s) for the %d-tuple' % (f, l, n), 'C07') for l in labels])
    return u
