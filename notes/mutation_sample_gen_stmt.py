import sys, os, re, json, random, shutil, subprocess, concurrent.futures as cf
sys.path.insert(0, '/verif')
from vx.dev import load_unit
from vx.unit import generate
from vx.runner import run_verus, parse
random.seed(23)
ORDER = ['alloc', 'storage', 'join', 'parjoin', 'changeset', 'world', 'lazy', 'kinds', 'veckinds', 'flagged', 'marker', 'markerw', 'data']
seen = {}
for un in ORDER:
    u = load_unit(un)
    g = generate(u, '/repo')
    for it in g.items:
        if it['kind'] != 'fn' or it['file'].startswith('@') or 'is_unconstrained' in it['key']:
            continue
        k = (it['file'], tuple(it['lines']))
        if k not in seen:
            seen[k] = (un, it['key'])
print(len(seen), 'functions under contract (non-expanded)')
OPS = [(r'==', '!='), (r'!=', '=='), (r'<=', '<'), (r'(?<![<-])<(?![=<])\s', '<= '), (r'&&', '||'), (r'\|\|', '&&'), (r'\btrue\b', 'false'), (r'\bfalse\b', 'true'),
       (r'\+ 1\b', '+ 2'), (r'- 1\b', '- 0'), (r'\.is_some\(\)', '.is_none()'), (r'\.is_ok\(\)', '.is_err()'), (r'!self\.', 'self.'), (r'if !', 'if ')]
muts = []
for (file, (a, b)), (un, key) in sorted(seen.items()):
    src = open('/repo/' + file).read().split('\n')
    cands = []
    for ln in range(a, b - 1):
        line = src[ln]
        if line.strip().startswith('//') or 'fn ' in line:
            continue
        is_call = re.match(r'^\s+(self|\w+)(\.\w+)+\([^;]*\);\s*$', line) and 'unwrap' not in line
        nxt = src[ln + 1]
        nxt_stmt = re.match(r'^\s+[^/}{]*;\s*$', nxt) and not nxt.strip().startswith('let ')
        if is_call:
            cands.append((ln, 0, len(line), '', 'del'))
            cands.append((ln, 0, len(line), line + '\n' + line, 'dup'))
            if nxt_stmt and len(line) - len(line.lstrip()) == len(nxt) - len(nxt.lstrip()):
                cands.append((ln, 0, len(line), '@SWAP@', 'swap'))
    random.shuffle(cands)
    for c in cands[:4]:
        muts.append((file, un, key) + c)
print(len(muts), 'mutants')
json.dump(muts, open('/var/tmp/mutate/muts.json', 'w'))
