import sys, os, json, shutil, tempfile, subprocess
sys.path.insert(0, '/verif')
i = int(sys.argv[1])
muts = json.load(open('/var/tmp/mutate/muts.json'))
file, un, key, ln, s, e, rep, kind = muts[i]
D = tempfile.mkdtemp(prefix='mut.', dir='/var/tmp/mutate')
try:
    for n in ('src', 'Cargo.toml', 'Cargo.lock', 'specs-derive', 'tests', 'examples', 'benches'):
        p = '/repo/' + n
        if not os.path.exists(p): continue
        (shutil.copytree if os.path.isdir(p) else shutil.copy)(p, D + '/' + n)
    lines = open(D + '/' + file).read().split('\n')
    old = lines[ln]
    if rep == '@SWAP@':
        lines[ln], lines[ln + 1] = lines[ln + 1], lines[ln]
    else:
        lines[ln] = old[:s] + rep + old[e:]
    open(D + '/' + file, 'w').write('\n'.join(lines))
    # must still compile (cargo check, default features)
    c = subprocess.run(['cargo', 'check', '--offline', '--lib', '-q'], cwd=D, capture_output=True, text=True, env=dict(os.environ, CARGO_TARGET_DIR='/var/tmp/mutate/target%d' % (i % 6)))
    if c.returncode != 0:
        print(json.dumps(dict(i=i, res='nocompile'))); sys.exit(0)
    from vx.dev import load_unit
    from vx.unit import generate
    from vx.runner import run_verus, parse
    u = load_unit(un)
    g = generate(u, D)
    res = run_verus(g.text, un + '_m%d' % i)
    out = parse(res, g, un)
    print(json.dumps(dict(i=i, res=out['status'], lost=g.lost[:2], failed=sorted(out['failed'])[:3], file=file, key=key, line=ln + 1, old=old.strip(), new=lines[ln].strip(), unit=un)))
finally:
    shutil.rmtree(D, ignore_errors=True)
