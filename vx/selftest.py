"""plumbing self-test: python3 -m vx.selftest <unit> [-j N] [--repo DIR]

For every contracted function (and every method of a hand-written trait contract) SEPARATELY, each of its postcondition /
invariant clauses is conjoined with `false`, the unit is re-verified, and every obligation registered for those clauses must
come back FAILED under its registered name. This checks the label -> obligation mapping of the driver and that no clause is
dead text; one function at a time, because a falsified callee postcondition would make its callers vacuously true."""
import copy, re, sys, concurrent.futures as cf
from .dev import load_unit
from .unit import generate, label_regions
from .runner import run_verus, parse

CL = re.compile(r'(/\*@L:((?:ens|trait|loop\d+\.(?:inv|ens)|closure)[^*]*)\*/)(.*?)(/\*@E\*/)', re.S)


def main():
    name = sys.argv[1]
    repo = sys.argv[sys.argv.index('--repo') + 1] if '--repo' in sys.argv else '/repo'
    jobs = int(sys.argv[sys.argv.index('-j') + 1]) if '-j' in sys.argv else 8
    res = run_selftest(name, repo, jobs, verbose=True)
    print('selftest %s: %d targets, %d with problems' % (name, res['targets'], len(res['problems'])))


def run_selftest(name, repo='/repo', jobs=8, verbose=False, only_fns=None):
    """returns dict(targets=int, refuted=int (obligations that came back failed), problems=[{target, status, missing, unregistered}])"""
    u = load_unit(name)
    g = generate(u, repo)
    text = g.text
    targets = {}   # target key -> list of (span_start, span_end, label)
    for m in CL.finditer(text):
        line = text.count('\n', 0, m.start()) + 1
        key = None
        for (a, b, k) in g.fn_ranges:
            if a <= line <= b:
                key = k
        label = m.group(2).strip()
        if '.req.' in label:
            continue
        if key is None:
            mm = re.match(r'trait\.(\w+)\.', label)
            key = '<trait-contract>::' + (mm.group(1) if mm else label)
        elif label.startswith('trait.'):
            # a trait default method: its own clauses are registered as ens.trait.*; keep with the function
            pass
        # loop invariants are falsified in a separate run: a false invariant makes everything after the loop vacuous
        if key is not None and re.match(r'loop\d+\.', label):
            key = key + ' [loops]'
        targets.setdefault(key, []).append((m.start(3), m.end(3), label))

    def run(item):
        key, spans = item
        t = text
        for (a, b, label) in sorted(spans, reverse=True):
            t = t[:a] + ' ((' + t[a:b].strip() + ') && false) ' + t[b:]
        g2 = copy.copy(g)
        g2.text = t
        g2.labels = label_regions(t)
        res = run_verus(t, '%s_st' % name, multiple_errors=400)
        out = parse(res, g2, name)
        failed = set(out['failed'])
        labels = {l for (_, _, l) in spans}
        if key.startswith('<trait-contract>::'):
            want = {k for k in g.obligations if any(k.endswith('::hint.' + l) for l in labels)
                    and g.obligations[k]['kind'].startswith('inherited postcondition') is False}
        else:
            want = {k for k in g.obligations if g.obligations[k]['fn'] == key.replace(' [loops]', '') and
                    any(k.endswith('::' + l) or k.endswith('::ens.' + l) or k.endswith('.' + l) for l in labels)}
        status = out['status']
        return key, want, failed, status, out['undecided'][:2]

    problems = []
    refuted = 0
    items = sorted(targets.items())
    if only_fns is not None:
        items = [it for it in items if it[0].replace(' [loops]', '') in only_fns or it[0].startswith('<trait-contract>::')]
    with cf.ThreadPoolExecutor(max_workers=jobs) as ex:
        for key, want, failed, status, und in ex.map(run, items):
            miss = sorted(want - failed)
            unreg = sorted(f for f in failed if f not in g.obligations)
            refuted += len(want & failed)
            if not want and key.startswith('<trait-contract>::'):
                continue
            if status in ('error', 'rlimit') or miss or unreg or not want:
                problems.append(dict(target=key, status=status, missing=miss, unregistered=unreg))
                if verbose:
                    print('TARGET', key, 'status', status, 'registered', len(want), 'missing', miss, 'unregistered', unreg, und)
    return dict(targets=len(items), refuted=refuted, problems=problems)


if __name__ == '__main__':
    main()
