"""dev-time only: python3 -m vx.baseline  — records, per property and unit, the obligations that
discharge on the current (pinned) tree. Never invoked by a registered check."""
import json, os, sys
from .main import verify_unit, ROOT
from .props import PROPS

def main():
    repo = '/repo'
    units = sorted({u for p in PROPS.values() for u in p['units']})
    res = {}
    for un in units:
        u, g, r, out, _ = verify_unit(un, repo)
        if out['status'] != 'ok':
            print('unit', un, 'status', out['status'], list(out['failed'])[:5], out['undecided'][:3])
        res[un] = (g, out)
    base = {}
    for prop, cfg in sorted(PROPS.items()):
        base[prop] = {}
        for un in cfg['units']:
            g, out = res[un]
            import re as _re
            also = [_re.compile(x) for x in cfg.get('also', [])]
            base[prop][un] = sorted(k for k, v in g.obligations.items() if (prop in v['props'] or any(r.search(k) for r in also)) and k not in out['failed'])
        print(prop, {k: len(v) for k, v in base[prop].items()})
    with open(os.path.join(ROOT, 'baseline_obligations.json'), 'w') as f:
        json.dump(base, f, indent=1, sort_keys=True)

if __name__ == '__main__':
    main()
