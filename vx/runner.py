"""Run Verus on a generated unit file and map its diagnostics to named obligations."""
import json
import os
import re
import shutil
import subprocess
import tempfile
import time

SCRATCH_ROOT = '/var/tmp'


def run_verus(text, name, rlimit=None, extra_args=None, keep=None, timeout=1800, multiple_errors=8):
    d = tempfile.mkdtemp(prefix='specs-verif.%s.' % name, dir=SCRATCH_ROOT)
    try:
        path = os.path.join(d, name + '.rs')
        with open(path, 'w') as f:
            f.write(text)
        cmd = ['verus', name + '.rs', '--output-json', '--time', '--error-format=json',
               '--triggers-mode', 'silent', '--multiple-errors', str(multiple_errors)]
        if rlimit:
            cmd += ['--rlimit', str(rlimit)]
        if extra_args:
            cmd += extra_args
        t0 = time.time()
        try:
            p = subprocess.run(cmd, cwd=d, capture_output=True, text=True, timeout=timeout)
            out, err, rc = p.stdout, p.stderr, p.returncode
        except subprocess.TimeoutExpired as e:
            out, err, rc = (e.stdout or ''), (e.stderr or '') + '\nTIMEOUT', 124
            if isinstance(out, bytes):
                out = out.decode(errors='replace')
            if isinstance(err, bytes):
                err = err.decode(errors='replace')
        wall = time.time() - t0
        if keep:
            shutil.copy(path, keep)
        return dict(cmd=' '.join(cmd), stdout=out, stderr=err, rc=rc, wall=wall)
    finally:
        shutil.rmtree(d, ignore_errors=True)


SEMANTIC = [
    ('postcondition not satisfied', 'postcondition'),
    ('unable to prove post-condition of closure', 'closure postcondition'),
    ('unable to prove', 'other-semantic'),
    ('type invariant not satisfied', 'assertion'),
    ('precondition not satisfied', 'precondition'),
    ('precondition not met', 'precondition'),
    ('may fail to meet', 'assertion'),
    ('index out of bounds', 'precondition'),
    ('assertion failed', 'assertion'),
    ('invariant not satisfied', 'loop invariant'),
    ('loop invariant', 'loop invariant'),
    ('possible arithmetic underflow/overflow', 'overflow'),
    ('possible division by zero', 'overflow'),
    ('decreases not satisfied', 'termination'),
    ('could not prove termination', 'termination'),
    ('possible bit shift underflow/overflow', 'overflow'),
    ('unreachable', 'assertion'),
    ('recommendation not met', None),
    ('failed to', 'other-semantic'),
    ('not satisfied', 'other-semantic'),
]


def parse(res, g, unit_name):
    """returns dict(status, failed={obligation: [diag]}, undecided=[...], times={fn: ms}, verified, errors)"""
    out = dict(status='ok', failed={}, undecided=[], times={}, verified=0, errors=0, diags=[])
    try:
        j = json.loads(res['stdout'])
    except Exception:
        j = None
    diags = []
    for line in res['stderr'].splitlines():
        line = line.strip()
        if line.startswith('{'):
            try:
                diags.append(json.loads(line))
            except Exception:
                pass
    if j:
        vr = j.get('verification-results', {})
        out['verified'] = vr.get('verified', 0)
        out['errors'] = vr.get('errors', 0)
        try:
            for m in j['times-ms']['smt']['smt-run-module-times']:
                for fb in m.get('function-breakdown', []):
                    out['times'][fb['function']] = out['times'].get(fb['function'], 0) + fb['time-micros'] / 1000.0
                    if not fb.get('success', True):
                        out.setdefault('failed_fns', set()).add(fb['function'])
            out['smt_ms'] = j['times-ms']['smt']['total']
            out['total_ms'] = j['times-ms']['total']
        except Exception:
            pass
    hard = []
    for d in diags:
        if d.get('level') not in ('error',):
            continue
        msg = d.get('message', '')
        if msg.startswith('aborting due to') or msg.startswith('could not compile'):
            continue
        kind = None
        for (pat, k) in SEMANTIC:
            if pat in msg:
                kind = k
                break
        spans = d.get('spans', [])
        for ch in d.get('children', []):
            spans = spans + ch.get('spans', [])
        rl = 'rlimit' in msg.lower() or 'resource limit' in msg.lower()
        if rl:
            fn = _fn_of(spans, g)
            if fn is None:
                lem = _lemma_of(spans, g)
                fn = ('lemma::' + lem) if lem else None
            out['undecided'].append('resource limit: %s (%s)' % (msg, fn))
            out.setdefault('rlimit_fns', []).append(fn)
            continue
        if kind is None:
            if 'recommendation not met' in msg:
                continue
            hard.append(msg + ' @ ' + '; '.join('%d:%d' % (s['line_start'], s['column_start']) for s in spans[:2]))
            out.setdefault('hard_fns', []).append(_fn_of(spans, g))
            continue
        fn = _fn_of(spans, g)
        label = _label_of(spans, g)
        if fn is None:
            # failure inside prelude/spec text: lemma or stub
            lem = _lemma_of(spans, g)
            ob = '%s::lemma::%s' % (unit_name, lem) if lem else '%s::<spec-text>' % unit_name
        elif label and not label.startswith('req.'):
            ob = '%s::%s::%s' % (unit_name, fn, label)
            # inherited trait postconditions carry their marker in the trait declaration (`trait.x.y`); the obligation of the
            # implementing function is registered as `hint.trait.x.y`
            if ob not in g.obligations and '%s::%s::hint.%s' % (unit_name, fn, label) in g.obligations:
                ob = '%s::%s::hint.%s' % (unit_name, fn, label)
        else:
            ob = '%s::%s::safety' % (unit_name, fn)
        rendered = d.get('rendered') or msg
        out['failed'].setdefault(ob, []).append(dict(kind=kind, message=msg, rendered=rendered,
                                                    spans=[dict(line=s['line_start'], col=s['column_start'], label=s.get('label'), text=(s.get('text') or [{}])[0].get('text', '').strip()) for s in spans]))
    if hard:
        out['status'] = 'error'
        out['undecided'] += ['verifier rejected the generated file: ' + h for h in hard[:8]]
    elif j is None or (res['rc'] != 0 and not out['failed'] and not out['undecided']):
        out['status'] = 'error'
        out['undecided'].append('verifier produced no usable result (rc=%s): %s' % (res['rc'], res['stderr'][-600:]))
    elif out['undecided']:
        out['status'] = 'rlimit'
    elif out['failed']:
        out['status'] = 'failed'
    return out


def _fn_of(spans, g):
    # the function containing the primary span (fall back to any span)
    prim = [s for s in spans if s.get('is_primary')] + spans
    for s in prim:
        for (a, b, key) in g.fn_ranges:
            if a <= s['line_start'] <= b:
                return key
    return None


def _label_of(spans, g):
    best = None
    for s in spans:
        for (a, ca, b, cb, label) in g.labels:
            if (a, ca) <= (s['line_start'], s['column_start']) and (s['line_end'], s['column_end']) <= (b, cb + 1):
                if label.startswith('req.'):
                    if best is None:
                        best = label
                else:
                    return label
    return best


def _lemma_of(spans, g):
    # nearest lemma start line at or before the primary span
    prim = [s for s in spans if s.get('is_primary')] + spans
    if not prim:
        return None
    ln = prim[0]['line_start']
    cand = [(a, name) for name, (a, props) in g.lemmas.items() if a <= ln]
    if not cand:
        return None
    return max(cand)[1]
