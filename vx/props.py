"""Which units / bounded harnesses decide which property, and what each check assumes."""

COMMON_ASSUMPTIONS = [
    "N3 sequentialisation: `&self` interior mutation (atomics, AtomicBitSet) is modelled as `&mut self`; only single-threaded executions are covered",
    "prelude stubs (external_body) state the documented behaviour of hibitset, std::num::NonZeroI32, std atomics, Vec::extend; they are assumed, not verified",
    "Verus itself (VIR -> AIR -> Z3 4.12.5 encoding) and rustc's type/borrow checking of the generated single-file crate",
    "the extraction is textual: macro-generated code, cfg(test) items and everything not listed under functions_under_contract is outside",
]

HEADROOM = "machine arithmetic is not treated as mathematical: overflow side conditions are explicit preconditions (`headroom`): fewer than 2^24 indices ever allocated and fewer than 2^31-4 reuses of one index"

STORAGE_ASSUME = ["the storage layer is proved against the trait-level contract of UnprotectedStorage<T> for an ARBITRARY implementor; DenseVecStorage, HashMapStorage and BTreeStorage are proved to satisfy it as real trait impls (unit kinds, over the MaybeUninit / UnsafeCell / unchecked-Vec / map stubs of prelude/std_unsafe.rs and std_maps.rs); VecStorage and DefaultVecStorage (whose 'which slots hold a value' exists only in the caller's mask, so no contract over their own fields can define has()) are proved against MASK-RELATIVE contracts (unit veckinds: element-wise postconditions, unsafe preconditions discharged, restated for an arbitrary caller mask); that these two and NullStorage satisfy the trait-level contract itself on the real unsafe code is the bounded Kani part (C04 kinds, thorough tier), listed separately and never counted as proved",
                  "N8: D is instantiated at &MaskedStorage / &mut MaskedStorage (the Fetch/FetchMut aliases), AccessMut<'a> at &'a mut T (so `.access_mut()` is the identity reborrow)",
                  "N13/N14: cfg!(panic = \"abort\") covered for both values; the nested unwinding guard of not_present_insert is hoisted and its Drop body left external (unwinding is outside this family); mem::forget ends the guard's borrow (axiom_guard_resolved)"]

PROPS = {
    'C01': dict(units=['world'], witness='alloc',
                assumptions=[HEADROOM, "handles passed to deletion functions were returned by a creation path of the same world (`legit`)"]),
    'C02': dict(units=['world'], witness='alloc',
                assumptions=[HEADROOM, "handles passed in were returned by a creation path of the same world (`legit`); Rust runs Drop::drop once for an unbuilt builder"]),
    'C17': dict(units=['world'], witness='alloc',
                assumptions=[HEADROOM]),
    'C03': dict(units=['join'], witness='storage', assumptions=[HEADROOM] + STORAGE_ASSUME),
    'C04': dict(units=['storage', 'flagged', 'kinds', 'veckinds'], witness='storage', assumptions=[HEADROOM] + STORAGE_ASSUME + [
                    "unit kinds: 64-bit target (usize = 8 bytes); MaybeUninit<T> modelled as an optional value whose assume_init* REQUIRE initialisation; SyncUnsafeCell/UnsafeCell modelled as a plain cell (get() = shared reference), so shared_get_mut / SliceAccess (raw pointer casts) are not covered; Vec::set_len leaves new elements arbitrary, its capacity precondition and allocation failure are not modelled; AHashMap/BTreeMap are assumed finite maps",
                    "BOUNDED part (Kani, thorough tier only — the smallest VecStorage harness needs 11 minutes, mostly CBMC symbolic execution of Vec growth; reported under coverage.bounded): VecStorage / DefaultVecStorage against the raw-operation contract from every well-formed state within the stated small bounds, u16 components; the thorough tier also re-checks DenseVecStorage on the real unsafe code (cross-check of the stubs used by the proof); NullStorage only in the C08 harness"],
                kani=dict(files=['storages_harness.rs'], quick=[], thorough=['kvec_small', 'kvec_step', 'kdefault_small', 'kdefault_step', 'kdense_step'], timeout=3000)),
    'C08': dict(units=['storage', 'kinds', 'veckinds', 'changeset'], witness=None, level='other',
                # deductive support for the harness assumption "clean() gets the true mask": the mask/content invariant and the exact
                # map effect of every layer function that moves a value in or out (Verus, unit storage)
                also=[r'^storage::(MaskedStorage|Storage\(&mut\)|OccupiedEntry|VacantEntry|Drain_\w+)::\w+::ens\.(wf|map|ret|raw)$', r'^storage::UnprotectedStorage::drop\(default\)::',
                      # values added to a change set: clear() destroys all of them and empties the mask, the consuming join hands each one back once
                      r'^changeset::ChangeSet::(clear|add|new|default)::', r'^changeset::l?j_changeset_\w+::'],
                explanation="BOUNDED stand-in (Kani/CBMC harnesses on the real unsafe storage code with a destructor ledger) decides this property; Verus has no destructor semantics, so the exactly-once statement itself is never counted as proved. The Verus obligations listed here only discharge the harnesses' assumption that the layer keeps mask and content in step (so clean()/drop see the true mask and every moved-out value leaves the map). Each harness explores, symbolically and exhaustively within its bound, every choice of indices/operation; CBMC's pointer-safety checks (use after free, double free, out-of-bounds, invalid dereference) are enabled on the real code. Bounds are listed per harness under coverage.bounded.",
                assumptions=["bounds: <= 2-3 stored components over indices < 3, ONE arbitrary operation after a symbolic insertion prefix, then clean(true mask) and drop; u8-tagged tokens (VecStorage, DenseVecStorage), a zero-sized counting type (NullStorage)",
                             "the mask handed to clean() is the true mask: that MaskedStorage keeps it true is the Verus-proved layer invariant (C04)",
                             "outside: DefaultVecStorage/BTree/HashMap kinds in the ledger harness, the lazy queue (SegQueue), world teardown order, ChangeSet, panicking destructors (C19 n/a)"],
                kani=dict(files=['ownership_harness.rs', 'storages_harness.rs'], quick=['own_vec', 'own_dense', 'own_null', 'kdense_clean'], thorough=['own_drain'], timeout=3000)),
    'C12': dict(units=['flagged', 'flagged_ec', 'join'], witness='storage',
                assumptions=STORAGE_ASSUME + ["shrev::EventChannel::single_write appends one event and a reader registered earlier receives appended events in order (assumed contract on shrev)",
                                              "FlaggedStorage::shared_get_mut (the shared-access path of non-lending and parallel joins) is verified under the N3 sequentialisation: `&self` -> `&mut self`, the channel cell's get() + `&mut *ptr` -> get_mut(), the inner storage's shared_get_mut -> its get_mut",
                                              "bulk clear() emits nothing by design (stated in the property)",
                                              "both cfg variants of the storage-event-control feature are extracted and verified (units flagged / flagged_ec)"]),
    'C13': dict(units=['join', 'flagged', 'flagged_ec', 'kinds', 'veckinds'], witness='storage',
                # "a modification event is emitted only for the items that were actually fetched mutably": what a mutable fetch emits is the wrapper's contract
                also=[r'^flagged(_ec)?::(FlaggedStorage|DerefFlaggedStorage|FlaggedAccessMut)::(get|get_mut|shared_get_mut|deref|deref_mut)::'], assumptions=[HEADROOM] + STORAGE_ASSUME + ["parallel / SharedGetOnly variants are not covered (N3)"]),
    'C06': dict(units=['join', 'kinds', 'veckinds'], witness='storage',
                # the items of a restricted join are the paired accessors: "a mutation made through an item is visible afterwards on that entity and on no other"
                also=[r'^join::PairedStorage\w+::'],
                assumptions=[HEADROOM] + STORAGE_ASSUME + [
                    "REDUCED: hibitset's bit-set family (BitSetLike::iter ascending and duplicate-free, BitSetAnd/Not/All/Or views, layered skip logic) is an assumed contract: the 'indices straddling layer boundaries' part of the quantifier lives entirely in that dependency",
                    "macro-generated impls (define_open!, bitset_and!, define_bit_join!) are taken from rustc's own expansion on every run: Join/LendJoin tuples of arity 1-4, BitAnd of arity 2-4, bit-set members BitSet/&BitSet/BitSetNot/BitSetAnd/BitSetOr are under contract; higher arities (the macro is uniform), ParJoin impls and the remaining bit-set members are not; tuple_utils::Split is a trusted stub",
                    "N8: LendJoin's GAT Type<'next> is collapsed to a plain associated type; the `&mut Storage` lending member is therefore checked as free functions with the same clauses",
                    "JoinLendIter::for_each (closure capturing &mut) and the `&mut Storage` non-lending Join member (SharedGetMutOnly raw sharing) are not under contract"]),
    'C16': dict(units=['changeset'], witness='misc',
                kani=dict(files=['storages_harness.rs'], quick=[], thorough=['kdense_small', 'kdense_clean'], timeout=3000),
                assumptions=STORAGE_ASSUME + ["the inner DenseVecStorage<T> is the REAL struct and trait impl, verified in this unit against the storage contract (over the MaybeUninit / UnsafeCell / unchecked-Vec stubs of prelude/std_unsafe.rs, 64-bit usize); the thorough tier re-checks it on the real unsafe code with Kani (bounded cross-check of those stubs)",
                                              "`T: AddAssign` is modelled by a spec function add_spec(old, new) (arbitrary, possibly non-commutative); `a += b` is desugared to AddAssign::add_assign(&mut a, b) (N16)",
                                              "FromIterator/Extend loops over a generic IntoIterator are not under contract (they call add once per pair in iteration order); the `&mut ChangeSet` non-lending Join member (SharedGetMutOnly) is not under contract"]),
    'C15': dict(units=['marker'], witness='misc',
                assumptions=["REDUCED to the id-allocation core: SimpleMarkerAllocator::allocate / retrieve_entity_internal / SimpleMarker::id and the same functions of UuidMarkerAllocator. The load driver (serde), MarkerAllocator::retrieve_entity and mark (they create through the shared entities resource while a WriteStorage borrows it: not expressible under the N3 sequentialisation; mark also uses a closure capturing &mut), maintain (iterator adaptors) are outside; the UUID allocator's allocate / retrieve_entity_internal are under contract with uuid::Uuid modelled as a 128-bit value and Uuid::new_v4() arbitrary (non-collision of random ids is not claimed)",
                             "machine arithmetic: an explicit id must be < u64::MAX and fewer than 2^64 marks are counted; for id == u64::MAX `self.index = id + 1` overflows (panic in debug, wrap to 0 in release, after which fresh ids can collide) — recorded in DESIGN.md §7 as an edge-input observation outside the contract",
                             "std::collections::HashMap behaves as vstd's map model for u64 keys (vstd's assumed specification of std)"]),
    'C11': dict(units=['data'], witness=None,
                assumptions=["REDUCED to the specs-side half: reads()/writes() of ReadStorage and WriteStorage list exactly the resources their fetch() borrows, with the right mode. That shred's dispatcher stages systems by these declarations, runs each system exactly once, respects dependencies and never hits a borrow conflict is a property of the shred dependency and of concurrent execution: assumed, not decided here",
                             "which resource a handle borrows is fixed by its type (Fetch<'a, R> / FetchMut<'a, R> borrow resource R: shred's fetch is TypeId-indexed); ResourceId::new::<R>() is abstracted by rid::<R>()"]),
    'C20': dict(units=['world', 'join', 'marker'], witness='alloc',
                assumptions=[HEADROOM, "REDUCED: determinism is shown for what is under contract: every C20-tagged postcondition pins the result and the new abstract state as spec FUNCTIONS of the old abstract state and the arguments (index = last of free list else counter; batch-kill stop position unique; merge returns killed indices ascending; join keys = ascending enumeration of the mask; marker ids from a counter), and lemma_deterministic composes this over whole allocator histories",
                             "OUTSIDE: event streams beyond the per-operation append (C12), serialised output and the serde paths (C14 is not applicable), SimpleMarkerAllocator::maintain (iterator adaptors), HashMapStorage::clean's drop order, cross-process replay; hash-map iteration is never used by code under contract (vstd gives HashMap no iteration order, so a contract that pinned a result computed from it could not verify)"]),
    'C19': dict(units=['changeset'], witness=None,   # unit changeset contains the storage layer, the real DenseVecStorage and ChangeSet
                assumptions=["REDUCED to the ordering mechanism, because neither verifier has unwinding: Verus has no panics, Kani treats a panic as a failed check. What is proved (unbounded, on the real code) is the exception-safety invariant AT every call that can run a component destructor: the bookkeeping already treats the value as gone there. The step from that invariant to the property's statement (after catch_unwind no value is destroyed twice and no lookup reaches a destroyed value) is a meta-argument, not a checked obligation: unwinding only runs Drop impls, and the storages' own Drop runs clear(), whose destructor site is covered",
                             "the unwinding guard of not_present_insert: its real Drop body is additionally emitted as an inherent method (N14) and verified against {guard_pre} body {MaskedStorage::wf}; that guard_pre holds where BitSet::add could unwind relies on the source's own stated assumption that a panicking BitSet::add leaves the bit set unchanged",
                             "OUTSIDE: which destructor call (first, k-th, last) panics inside a kind's clean(); VecStorage / DefaultVecStorage / map kinds' own clean bodies; entity deletion / maintain / world teardown as wholes (there the allocator is updated before delete_components runs, which is part of C05's contracts, not restated here); catch_unwind itself; that a removed guard is noticed (a change that deletes the guard makes the hint anchor disappear: exit 2, undecided)"] + STORAGE_ASSUME),
    'C05': dict(units=['world', 'data', 'storage'], witness='alloc',
                assumptions=[HEADROOM, "WorldExt::delete_components is under contract (loop invariant: the storages walked so far lost exactly the given indices, the rest is untouched) over an ASSUMED model of shred's MetaTable<dyn AnyStorage>: `iter_mut(world)` yields every listed storage exactly once (normalised to an index loop over that list, N10) and the dynamic call `storage.drop(ids)` is MaskedStorage<T>::drop for the listed T, whose real body is verified in unit storage (AnyStorage::drop: removes exactly those indices)",
                             "World accessors (entities_mut, write_resource) are stubs with the documented shred behaviour; LazyUpdate::maintain is unconstrained"]),
}

TB = "Trusted: prelude stubs for hibitset / NonZeroI32 / atomics / Vec::extend (assumed contracts), N3 sequentialisation, headroom preconditions, Verus+Z3, the vx extractor's closed list of normalisations (each application recorded in the evidence)."

MANIFEST_TEXT = {
    'C08': dict(
        category='other',
        level="Bounded stand-in, never counted as proved: Kani/CBMC harnesses drive the real unsafe storage kinds (VecStorage, DenseVecStorage, NullStorage; thorough: MaskedStorage + Drain with the real bit set) with a destructor ledger from a symbolic insertion prefix through one arbitrary operation to clean()/drop, asserting each value is destroyed xor handed back exactly once, with CBMC's memory-safety checks on. Verus cannot state this property (no destructor semantics).",
        design_ref='DESIGN.md §5 C08', note='bounded (<= 3 slots, one operation); Kani+CBMC trusted; DefaultVec/BTree/HashMap kinds, lazy queue, teardown order outside.',
        technique='bounded Kani harnesses with a destructor ledger on the real unsafe code (stand-in for a contract)'),
    'C19': dict(
        level="Reduced to the mechanism the property names: Verus proves, for all states, that at each call which may run a component destructor the structure is already consistent with the value being gone — MaskedStorage::clear and ChangeSet::clear have swapped in the empty mask before clean() runs; MaskedStorage::drop / remove have cleared the mask bit before the raw drop / remove; DenseVecStorage::clean has emptied both redirection tables before the data vector drops the values; the unwinding guard of not_present_insert is armed in a state from which its (real) body restores the mask/content invariant. Unwinding itself is not modelled by either verifier, so the property's statement about the state after a caught panic follows only by the argument in DESIGN.md §5 C19, which is stated as an assumption.",
        design_ref='DESIGN.md §5 C19', note=TB + ' No unwinding semantics: the inference from destructor-site invariants to post-catch_unwind behaviour is a meta-argument; BitSet::add assumed unchanged on panic (as the source states).',
        technique='Verus: labelled assertions at every destructor call site of the extracted real code + a contract on the real body of the unwinding guard'),
    'C20': dict(
        level="Reduced: for the allocator, world-level deletion, join iteration and marker-id allocation, the postconditions verified by Verus are functional (result and successor abstract state are spec functions of the predecessor state and arguments), so two equal single-threaded histories give equal handles, results and visit orders; lemma_deterministic proves this by induction over histories and lemma_kill_stop_unique/lemma_visit_order cover the two places where a relation rather than a function is stated. Serialised output, event streams and cross-process replay are outside.",
        design_ref='DESIGN.md §5 C20', note=TB,
        technique='Verus: functional (deterministic) postconditions + induction lemma over histories'),
    'C11': dict(
        level="Reduced unbounded proof: for ReadStorage and WriteStorage, Verus proves reads() and writes() return exactly the resource ids of the handles fetch() constructs (entities shared + storage shared, resp. entities shared + storage exclusive) and that Storage::new stores exactly those two handles. The scheduling half of the property (shred's dispatcher) is an assumed dependency contract and is stated as such in the evidence.",
        design_ref='DESIGN.md §5 C11', note='shred World/Fetch/ResourceId stubs; dispatcher behaviour assumed.',
        technique='Verus postconditions on the four extracted declaration/fetch functions per storage handle type'),
    'C15': dict(
        level="Reduced unbounded proof of the uniqueness mechanism: invariant 'every id in the table is below the counter' is preserved by allocate; a counted id is the old counter (hence not in the table); an explicit id bumps the counter to max(counter, id+1); the table gains exactly (id -> entity) overwriting a stale entry; lookup is the table lookup. Merge-by-marker at the World level is outside (see assumptions).",
        design_ref='DESIGN.md §5 C15', note='vstd model of std HashMap; arithmetic headroom precondition; everything above allocate is outside.',
        technique='Verus data-structure invariant + exact postconditions on the extracted allocator functions'),
    'C16': dict(
        level="Unbounded proof: ChangeSet::add maps the abstract map m to m[id := add_spec(m[id], v)] when id is present (stored value first, new amount second: arrival order) and to m[id := v] otherwise, keeps mask and storage in step; clear empties it; the shared, by-value and lending join members are real trait impls verified against the Join contract (items are exactly the stored amounts; the consuming member removes exactly the fetched slot). With C06's iterator contract each accumulated amount is produced once. A fold lemma shows an unmentioned entity gets nothing.",
        design_ref='DESIGN.md §5 C16', note=TB + ' The inner DenseVecStorage is the real impl, verified in the same unit (unsafe primitives stubbed).',
        technique='Verus contracts on extracted changeset.rs functions and trait impls; abstract add_spec for AddAssign'),
    'C06': dict(
        level="Reduced unbounded proof: a trait-level contract for Join/LendJoin (open returns the member's mask and makes every member index fetchable; get returns the member's item and keeps other indices fetchable) against which (a) the real generic iterators JoinIter::{new,next} and JoinLendIter::{new,next,get,get_unchecked} are verified: keys are the ascending duplicate-free enumeration of the joined mask, one get per key, lookup by entity succeeds exactly for live members; and (b) the real member impls (&Storage, AntiStorage, MaybeJoin, Drain, &EntitiesRes, one-tuple BitAnd) are verified as trait impls, &mut Storage lending as free functions. Bit-set internals and macro-generated tuple impls are outside.",
        design_ref='DESIGN.md §5 C06', note=TB + ' hibitset iteration order/combination assumed; macro-generated impls not covered.',
        technique='Verus: generic iterator code and real trait impls checked against a trait-level Join contract'),
    'C12': dict(
        level="Unbounded proof: FlaggedStorage's real `impl UnprotectedStorage` is verified by Verus against the trait-level contract extended with an event effect (insert appends exactly Inserted(id), remove and the default drop exactly Removed(id), get_mut exactly Modified(id), get/clean nothing; nothing at all while emission is off — both cfg variants of storage-event-control); DerefFlaggedStorage's methods likewise, with get_mut emitting nothing and FlaggedAccessMut::deref_mut exactly one Modified per call. The generic layer (unit storage) then shows Storage::insert/remove/get_mut, entry removal, drain and MaskedStorage::drop produce exactly the corresponding effect once, and reads none.",
        design_ref='DESIGN.md §5 C12', note=TB + ' shrev channel stub; shared_get_mut excluded.',
        technique='Verus: real trait impl checked against a trait-level contract with an event-log effect; effect composition through the storage layer'),
    'C03': dict(
        level="Unbounded proof per access path: every handle-taking function (Storage::{get,contains,get_mut,insert,remove,entry}, both get_mut_or_default impls, restricted get_other/get_other_mut) is verified, for an arbitrary storage kind, to return nothing / refuse and to leave the whole map and the event log unchanged whenever EntitiesRes::is_alive(handle) is false; is_alive itself is proved equal to 'current' in unit alloc, and the trace lemmas show a dead handle never becomes current again, reused index or not.",
        design_ref='DESIGN.md §5 C03', note=TB + ' Trait-level storage contract.',
        technique='Verus postconditions (whole-view frame) on each extracted access path, against a trait-level storage contract'),
    'C04': dict(
        level="Layer: unbounded proof that MaskedStorage/Storage/entry/drain/get_mut_or_default behave as Map<Index,T> operations (exact return values, exact new map, invariant mask == set of stored indices, raw accessors only called with their precondition) for ANY implementor of the trait-level contract. Kinds: the real `impl UnprotectedStorage` of DenseVecStorage (redirection tables, swap-remove fix-up, growth by set_len; representation invariant + pigeonhole lemma for the u32 cast), HashMapStorage and BTreeStorage are verified by Verus against the same contract (unbounded, over stubs for MaybeUninit / UnsafeCell / unchecked Vec access / the map types); VecStorage and DefaultVecStorage, which keep no record of occupancy themselves, are verified against mask-relative contracts (unit veckinds: exact element-wise effects of insert/remove/get_mut/clean, the unchecked accesses and assume_init* preconditions discharged, growth to exactly id+1, Default padding); their conformance to the trait-level contract on the real unsafe code (and NullStorage) is additionally checked by Kani with small bounds in the thorough tier (labelled bounded, not counted as proved).",
        design_ref='DESIGN.md §5 C04', note=TB + ' Unsafe primitives are stubs with their documented safety conditions as preconditions; Vec/DefaultVec/Null conformance is bounded (Kani).',
        technique='Verus contracts on the generic layer and on three real storage impls against a trait-level contract; bounded Kani conformance harnesses for the kinds whose content lives only in the caller\'s mask'),
    'C13': dict(
        level="Unbounded proof for the sequential paired items: get = val(index), get_mut touches exactly its own index (whole-view frame), get_other/get_other_mut follow the mask-and-alive rule, and only get_mut / a successful get_other_mut carry the mutable-access effect of the underlying storage. Parallel variants are outside (no threads).",
        design_ref='DESIGN.md §5 C13', note=TB,
        technique='Verus contracts on extracted restrict.rs accessors against the trait-level storage contract'),
    'C05': dict(
        level="Unbounded proof of the call-site obligations: delete_entities hands delete_components exactly the killed prefix on both paths (the #766 shape), delete_entity likewise, maintain purges exactly the handles merge() returned (whenever there are any), and lemmas show the invariant 'no listed storage holds a component at an unoccupied index' is preserved, so a (re)used index starts empty. The walk over the storage table (delete_components) is verified with a loop invariant over an assumed model of shred's MetaTable iteration (each listed storage once; dynamic dispatch to AnyStorage::drop, whose MaskedStorage body is proved in unit storage).",
        design_ref='DESIGN.md §5 C05', note=TB + ' MetaTable iteration (each listed storage once) and the dyn dispatch to AnyStorage::drop are assumed.',
        technique='Verus contracts on extracted world_ext.rs functions (incl. the MetaTable walk under a loop invariant) + invariant lemmas'),
    'C01': dict(
        level="Unbounded proof: every function of the allocator that can hand out or retire an index (allocate, allocate_atomic, kill, kill_atomic, merge and their callees) is verified by Verus against a representation invariant and an exact abstract transition; a trace lemma proved by induction over arbitrary-length chains of those transitions shows two creations never return the same (index, generation). Tests sample 3 histories; this covers all.",
        design_ref='DESIGN.md §4, §5 C01', note=TB,
        technique='Verus function contracts on extracted real code + inductive trace lemma over the contracts'),
    'C02': dict(
        level="Unbounded proof: is_alive / kill / kill_atomic / merge / entities-join contracts pin the aliveness of every legit handle as a function of the abstract state; trace lemmas (alive right after creation, stays alive until its index is vacated, once dead never alive again) are proved by induction over all histories.",
        design_ref='DESIGN.md §4, §5 C02', note=TB,
        technique='Verus function contracts on extracted real code + inductive trace lemmas'),
    'C17': dict(
        level="Unbounded proof: free-list completeness (every unoccupied index below the counter is on the free list) is an invariant preserved by every allocator function, including the early-return path of a batch kill; a trace lemma shows a fresh index is taken only when all lower ones are occupied. This found a genuine defect (fixed in 19039e0).",
        design_ref='DESIGN.md §5 C17, §7', note=TB,
        technique='Verus data-structure invariant (wf_complete) on extracted real code + trace lemma'),
}

NOT_APPLICABLE = {
    'C07': "quantifies over thread-pool sizes and work-stealing splits; Kani has no threads, Verus would need permission types threaded through rayon; the only sequential specs-side code wraps hibitset::BitProducer::split (a dependency)",
    'C09': "the queue is a lock-free SegQueue behind an Arc of opaque Box<dyn FnOnce(&mut World)> closures, aliased by the very world the closures mutate (actions queue further actions on it while it is being drained): exactly-once, in-order execution over whole histories cannot be stated as a contract of any function within reach of Verus (no closures taking &mut, no aliasing of the drained queue) and Kani cannot build a World. What IS decided elsewhere: that maintain merges and purges before the queue runs (C05, World::maintain::hint.merged / hint.purged), that the lazy creation paths return fresh handles (C01: LazyUpdate::create_entity, LazyBuilder::build) and that the generation-checked Storage API refuses dead targets (C03)",
    'C10': "interleavings of relaxed atomics; the N3 sequentialisation used for every other property removes concurrency by construction",
    'C14': "a round trip through serde's Serializer/Deserializer generics, visitor callbacks, FnMut id-mapping closures and concrete data formats; the (de)serialisation drivers (ser.rs/de.rs: macro-generated tuple impls over GenericRead/WriteStorage with `?` + From conversions) are outside the Verus subset and too large for Kani; no contract within reach states or decides it (the marker tables it relies on are decided under C15)",
    'C18': "subject is a proc-macro over syn/quote token streams; neither verifier handles those crates; correctness is over all input programs",
}
