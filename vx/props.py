"""Which units / bounded harnesses decide which property, and what each check assumes."""

COMMON_ASSUMPTIONS = [
    "N3 sequentialisation: `&self` interior mutation (atomics, AtomicBitSet) is modelled as `&mut self`; only single-threaded executions are covered",
    "prelude stubs (external_body) state the documented behaviour of hibitset, std::num::NonZeroI32, std atomics, Vec::extend; they are assumed, not verified",
    "Verus itself (VIR -> AIR -> Z3 4.12.5 encoding) and rustc's type/borrow checking of the generated single-file crate",
    "the extraction is textual: macro-generated code, cfg(test) items and everything not listed under functions_under_contract is outside",
]

HEADROOM = "machine arithmetic is not treated as mathematical: overflow side conditions are explicit preconditions (`headroom`): fewer than 2^24 indices ever allocated and fewer than 2^31-4 reuses of one index"

PROPS = {
    'C01': dict(units=['world'], witness='alloc',
                assumptions=[HEADROOM, "handles passed to deletion functions were returned by a creation path of the same world (`legit`)"]),
    'C02': dict(units=['world'], witness='alloc',
                assumptions=[HEADROOM, "handles passed in were returned by a creation path of the same world (`legit`); Rust runs Drop::drop once for an unbuilt builder"]),
    'C17': dict(units=['world'], witness='alloc',
                assumptions=[HEADROOM]),
    'C05': dict(units=['world'], witness='alloc',
                assumptions=[HEADROOM, "WorldExt::delete_components is an ASSUMED contract (its body iterates shred's MetaTable<dyn AnyStorage>): it removes exactly the given indices from every listed storage and touches nothing else",
                             "World accessors (entities_mut, write_resource) are stubs with the documented shred behaviour; LazyUpdate::maintain is unconstrained"]),
}

TB = "Trusted: prelude stubs for hibitset / NonZeroI32 / atomics / Vec::extend (assumed contracts), N3 sequentialisation, headroom preconditions, Verus+Z3, the vx extractor's closed list of normalisations (each application recorded in the evidence)."

MANIFEST_TEXT = {
    'C05': dict(
        level="Unbounded proof of the call-site obligations: delete_entities hands delete_components exactly the killed prefix on both paths (the #766 shape), delete_entity likewise, maintain purges exactly the handles merge() returned (whenever there are any), and lemmas show the invariant 'no listed storage holds a component at an unoccupied index' is preserved, so a (re)used index starts empty. The walk over the storage table itself (delete_components: trait objects in shred's MetaTable) is an assumed contract; AnyStorage::drop for MaskedStorage is proved in unit storage.",
        design_ref='DESIGN.md §5 C05', note=TB + ' delete_components/MetaTable iteration assumed.',
        technique='Verus contracts on extracted world_ext.rs functions + invariant lemmas; assumed contract for the MetaTable walk'),
    'C01': dict(
        level="Unbounded proof: every function of the allocator that can hand out or retire an index (allocate, allocate_atomic, kill, kill_atomic, merge and their callees) is verified by Verus against a representation invariant and an exact abstract transition; a trace lemma proved by induction over arbitrary-length chains of those transitions shows two creations never return the same (index, generation). Tests sample 3 histories; this covers all.",
        design_ref='DESIGN.md §4, §5 C01', note=TB,
        technique='Verus function contracts on extracted real code + inductive trace lemma over the contracts'),
    'C02': dict(
        level="Unbounded proof: is_alive / kill / kill_atomic / merge / entities-join contracts pin the aliveness of every legit handle as a function of the abstract state; trace lemmas (alive right after creation, stays alive until its index is vacated, once dead never alive again) are proved by induction over all histories.",
        design_ref='DESIGN.md §4, §5 C02', note=TB,
        technique='Verus function contracts on extracted real code + inductive trace lemmas'),
    'C17': dict(
        level="Unbounded proof: free-list completeness (every unoccupied index below the counter is on the free list) is an invariant preserved by every allocator function, including the early-return path of a batch kill; a trace lemma shows a fresh index is taken only when all lower ones are occupied. This found a genuine defect (fixed in 19039e0).",
        design_ref='DESIGN.md §5 C17, §7', note=TB,
        technique='Verus data-structure invariant (wf_complete) on extracted real code + trace lemma'),
}

NOT_APPLICABLE = {
    'C07': "quantifies over thread-pool sizes and work-stealing splits; Kani has no threads, Verus would need permission types threaded through rayon; the only sequential specs-side code wraps hibitset::BitProducer::split (a dependency)",
    'C09': "lock-free SegQueue behind an Arc of opaque Box<dyn FnOnce(&mut World)> closures aliased by the world they mutate; no contract in reach of Verus/Kani can express it; Kani cannot build a World",
    'C10': "interleavings of relaxed atomics; the N3 sequentialisation used for every other property removes concurrency by construction",
    'C14': "round trip through serde Serializer/Deserializer generics and concrete data formats; no contract within reach states or decides it",
    'C18': "subject is a proc-macro over syn/quote token streams; neither verifier handles those crates; correctness is over all input programs",
    'C19': "needs unwinding semantics (catch_unwind, drop guards during unwind); Verus has no panics, Kani treats a panic as a failed check",
}
