"""dev loop: python3 -m vx.dev <unit> [--vacuity] [--repo DIR]  — generate, verify, print mapped failures"""
import importlib.util, sys, os, json
from .unit import generate
from .runner import run_verus, parse

def load_unit(name):
    p = os.path.join(os.path.dirname(os.path.dirname(os.path.abspath(__file__))), 'contracts', name, 'unit.py')
    spec = importlib.util.spec_from_file_location('unit_' + name, p)
    m = importlib.util.module_from_spec(spec)
    spec.loader.exec_module(m)
    return m.build()

def main():
    name = sys.argv[1]
    repo = '/repo'
    if '--repo' in sys.argv:
        repo = sys.argv[sys.argv.index('--repo') + 1]
    u = load_unit(name)
    falsify = '--falsify' in sys.argv
    g = generate(u, repo, vacuity='--vacuity' in sys.argv, falsify=falsify)
    keep = '/var/tmp/vx-%s.rs' % name
    for l in g.lost:
        print('LOST', l)
    res = run_verus(g.text, name, keep=keep, multiple_errors=(400 if falsify else 8))
    out = parse(res, g, name)
    if falsify:
        kinds = ('postcondition', 'loop invariant', 'loop ensures', 'closure postcondition', 'inherited postcondition')
        want = {k for k, v in g.obligations.items() if v['kind'].startswith(kinds) or '::hint.trait.' in k}
        got = set(out['failed'])
        print('falsify: %d clause obligations registered, %d reported failed' % (len(want), len(want & got)))
        for k in sorted(want - got):
            print('NOT-REFUTED (mapping hole, unreachable clause or optional item absent):', k)
        for k in sorted(got - set(g.obligations)):
            print('UNREGISTERED failure name:', k)
        for u_ in out['undecided']:
            print('UNDECIDED', u_)
        return
    print('status', out['status'], 'verified', out['verified'], 'errors', out['errors'], 'wall %.1fs' % res['wall'], 'obligations', len(g.obligations))
    for u_ in out['undecided']:
        print('UNDECIDED', u_)
    for ob, ds in out['failed'].items():
        print('FAILED', ob)
        for d in ds:
            print('   ', d['kind'], '|', d['message'])
            for s in d['spans'][:4]:
                print('        %d:%d %s | %s' % (s['line'], s['col'], s['label'] or '', s['text'][:120]))
    if out['status'] == 'error':
        print(res['stderr'][-3000:] if not out['undecided'] else '')
    print('generated file kept at', keep)

if __name__ == '__main__':
    main()
