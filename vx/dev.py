"""dev loop: python3 -m vx.dev <unit> [--vacuity] [--repo DIR]  — generate, verify, print mapped failures"""
import importlib.util, sys, os, json
from .unit import generate
from .runner import run_verus, parse

def load_unit(name):
    p = os.path.join(os.path.dirname(os.path.dirname(os.path.abspath(__file__))), 'contracts', name, 'unit.py')
    spec = importlib.util.spec_from_file_location('unit_' + name, p)
    m = importlib.util.module_from_spec(spec)
    spec.loader.exec_module(m)
    return m.build()

def main():
    name = sys.argv[1]
    repo = '/repo'
    if '--repo' in sys.argv:
        repo = sys.argv[sys.argv.index('--repo') + 1]
    u = load_unit(name)
    g = generate(u, repo, vacuity='--vacuity' in sys.argv)
    keep = '/var/tmp/vx-%s.rs' % name
    for l in g.lost:
        print('LOST', l)
    res = run_verus(g.text, name, keep=keep)
    out = parse(res, g, name)
    print('status', out['status'], 'verified', out['verified'], 'errors', out['errors'], 'wall %.1fs' % res['wall'], 'obligations', len(g.obligations))
    for u_ in out['undecided']:
        print('UNDECIDED', u_)
    for ob, ds in out['failed'].items():
        print('FAILED', ob)
        for d in ds:
            print('   ', d['kind'], '|', d['message'])
            for s in d['spans'][:4]:
                print('        %d:%d %s | %s' % (s['line'], s['col'], s['label'] or '', s['text'][:120]))
    if out['status'] == 'error':
        print(res['stderr'][-3000:] if not out['undecided'] else '')
    print('generated file kept at', keep)

if __name__ == '__main__':
    main()
