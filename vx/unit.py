"""Unit description API + generator of the single Verus file for a unit."""
import json
import os
import re
from . import annotate as A
from .extract import find_item, LostAnchor, list_fns, strip_vis
from .lexer import lex, squash


# N10 (every unit): a fully qualified path into a stubbed dependency names the prelude's stand-in of the same item
DEFAULT_RULES = [('N10', r'\bhibitset::(?=[A-Z])', ''), ('N10', r'\bshrev::(?=[A-Z])', ''),
                 # N17b: `let &(a, b, c) = v;` (irrefutable reference pattern over a tuple of Copy fields, v a local) -> field copies
                 ('N17', r'let &\((\w+), (\w+)\) = (\w+);', r'let \1 = \3.0; let \2 = \3.1;'),
                 ('N17', r'let &\((\w+), (\w+), (\w+)\) = (\w+);', r'let \1 = \4.0; let \2 = \4.1; let \3 = \4.2;'),
                 ('N17', r'let &\((\w+), (\w+), (\w+), (\w+)\) = (\w+);', r'let \1 = \5.0; let \2 = \5.1; let \3 = \5.2; let \4 = \5.3;')]


class Clause:
    def __init__(self, label, expr, props=None):
        self.label, self.expr = label, expr
        self.props = props.split() if isinstance(props, str) else props


def E(label, expr, props=None):
    return Clause(label, expr, props)


class FnSpec:
    def __init__(self, file, path, **kw):
        self.file, self.path = file, path
        self.key = kw.pop('key', None)
        self.props = kw.pop('props', '').split()
        self.ret = kw.pop('ret', None)
        self.requires = kw.pop('requires', [])
        self.ensures = kw.pop('ensures', [])
        self.loops = kw.pop('loops', {})
        self.loops_total = kw.pop('loops_total', None)   # number of loops the function has on the pinned tree (default: highest annotated ordinal + 1)
        self.closures = kw.pop('closures', {})
        self.hints = kw.pop('hints', [])
        self.hint_obligations = kw.pop('hint_obligations', [])   # labelled assertions inside hints: E(label, descr, props)
        self.mut_self = kw.pop('mut_self', False)        # N3
        self.mut_fields = kw.pop('mut_fields', [])       # N3
        self.mut_params = kw.pop('mut_params', [])       # N3
        self.rules = kw.pop('rules', [])                 # [(rule_id, regex, repl)]
        self.free = kw.pop('free', None)                 # emit trait-impl fn as free fn with this name
        self.impl_header = kw.pop('impl_header', None)   # override emitted impl header
        self.impl_rules = kw.pop('impl_rules', [])
        self.extra = kw.pop('extra', '')                 # e.g. decreases / attribute text after clauses
        self.attr = kw.pop('attr', '')                   # attribute line before fn
        self.nth = kw.pop('nth', None)
        self.n4 = kw.pop('n4', True)
        self.n4c = kw.pop('n4c', False)
        self.n16 = kw.pop('n16', False)
        self.safety_props = kw.pop('safety_props', None)
        self.group = kw.pop('group', None)
        self.brace_arms = kw.pop('brace_arms', False)   # N25
        self.bind = kw.pop('bind', {})                   # {name: regex with one group}: `$name` in clauses / hints / anchors stands for the text the group
                                                         # captures in the normalised function text (names of locals are taken from the code, not assumed)
        self.guard = kw.pop('guard', None)               # contract for the body of a nested Drop guard (N14): dict(requires=[E], ensures=[E])
        self.review_if_present = kw.pop('review_if_present', [])   # [E(label, descr, props)]: if this OPTIONAL item exists, these obligations cannot be decided by its contract (e.g. a new destructor call site): undecided for their properties
        self.optional = kw.pop('optional', False)     # item may be absent (e.g. an override of a trait default); then nothing to check             # emit inside the named group block (see Unit.groups)
        if kw:
            raise TypeError('unknown FnSpec args %s' % list(kw))
        self.kind = 'fn'


class StructSpec:
    def __init__(self, file, path, **kw):
        self.file, self.path = file, path
        self.key = kw.pop('key', None)
        self.derive = kw.pop('derive', None)
        self.rules = kw.pop('rules', [])
        self.attr = kw.pop('attr', '')
        self.nth = kw.pop('nth', None)
        if kw:
            raise TypeError('unknown StructSpec args %s' % list(kw))
        self.kind = 'struct'


class Unit:
    def __init__(self, name, prelude, spec, global_rules=None, files=None, features=None):
        self.name = name
        self.features = features            # cargo features assumed when evaluating #[cfg(feature = ..)] (default: {'parallel'})
        self.groups = {}                    # name -> dict(header=..., pre=<text or contracts/ file>, private=bool)
        self.prelude = prelude      # list of files under contracts/
        self.spec = spec            # list of files under contracts/
        self.items = []
        self.global_rules = global_rules or []
        self.files = files or []    # anchored repo files for the not-under-contract report

    def fn(self, file, path, **kw):
        self.items.append(FnSpec(file, path, **kw))

    def struct(self, file, path, **kw):
        self.items.append(StructSpec(file, path, **kw))


def _auto_key(item, spec):
    if spec.key:
        return spec.key
    name = re.match(r'(?:fn|struct|enum|type|trait)\s+(\w+)', ' '.join(strip_vis(item.header).split())).group(1)
    if item.parent is not None:
        h = ' '.join(strip_vis(item.parent.header).split())
        # last path-ish type name in the impl header (before where)
        h = re.split(r'\bwhere\b', h)[0]
        m = re.findall(r"([A-Z]\w*)", re.sub(r"<[^<>]*>", '', re.sub(r"<[^<>]*>", '', h)))
        owner = '_for_'.join(m) if ' for ' in h else (m[-1] if m else 'impl')
        return owner + '::' + name
    return name


class Generated:
    def __init__(self):
        self.text = ''
        self.items = []         # dict(key, file, path, lines, sha256, norms, lost_hints, gen_lines=(a,b), kind)
        self.obligations = {}   # name -> dict(props, fn, kind)
        self.labels = []        # (line_start, col_start, line_end, col_end, label)
        self.fn_ranges = []     # (line_start, line_end, key)
        self.lemmas = {}        # name -> (line_start, line_end, props)
        self.lost = []
        self.consts = set()
        self.review = set()     # review obligations of optional items that are present: undecided for their properties
        self.stubbed = set()    # functions emitted as contract-only stubs (isolation): their obligations are undecided
        self.trusted = []
        self.cheats_outside_prelude = []


CONTRACTS = os.path.join(os.path.dirname(os.path.dirname(os.path.abspath(__file__))), 'contracts')


def _scan_trusted(text, origin):
    """mechanical scan for assumption-bearing constructs."""
    out = []
    toks = lex(text)
    code = [t for t in toks if t.kind not in ('ws', 'lcomment', 'bcomment', 'doc')]
    for i, t in enumerate(code):
        if t.kind == 'ident' and t.text == 'external_body':
            # name of next fn/struct
            for u_i in range(i, min(i + 60, len(code) - 1)):
                if code[u_i].text in ('fn', 'struct') and code[u_i].kind == 'ident':
                    out.append('%s: external_body %s %s' % (origin, code[u_i].text, code[u_i + 1].text))
                    break
        elif t.kind == 'ident' and t.text == 'assume_specification':
            j = i
            s = ''
            while j < len(code) and code[j].text != ';' and len(s) < 120:
                s += code[j].text
                j += 1
            out.append('%s: %s' % (origin, s[:120]))
        elif t.kind == 'ident' and t.text in ('assume', 'admit') and i + 1 < len(code) and code[i + 1].text == '(' and (i == 0 or code[i - 1].text not in ('.', '::', 'fn')):
            out.append('%s: %s(...) at byte %d' % (origin, t.text, t.start))
        elif t.kind == 'ident' and t.text == 'uninterp':
            for u_i in range(i, min(i + 10, len(code) - 1)):
                if code[u_i].text == 'fn':
                    out.append('%s: uninterpreted spec fn %s' % (origin, code[u_i + 1].text))
                    break
        elif t.kind == 'ident' and t.text == 'axiom' and i + 2 < len(code) and code[i + 1].text == 'fn':
            out.append('%s: axiom fn %s' % (origin, code[i + 2].text))
    return out


def _cond(t, features):
    """feature conditionals in contract text: /*@IF feat*/ A /*@ELSE*/ B /*@END*/"""
    def rep(m):
        return m.group(2) if m.group(1) in features else m.group(3)
    return re.sub(r'/\*@IF ([\w-]+)\*/(.*?)/\*@ELSE\*/(.*?)/\*@END\*/', rep, t, flags=re.S)


def _privatise(t):
    """single-module file with private extracted items: spec/prelude text is made private as well"""
    t = re.sub(r'\bpub\s+(open|closed)\s+spec\s+fn', 'spec fn', t)
    t = re.sub(r'\b(open|closed)\s+spec\s+fn', 'spec fn', t)
    t = re.sub(r'\bpub\s+(?!assume_specification)', '', t)
    return t


def generate(unit, repo, vacuity=False, falsify=False, stub_fns=None, drop_asserts=None):
    from . import extract as _ex
    _ex.FEATURES = set(unit.features) if unit.features is not None else {'parallel'}
    _ex.Source._cache.clear()
    _ex._expanded_cache.clear()
    g = Generated()
    chunks = []      # (text, meta)
    header = '#![feature(allocator_api)]\nuse vstd::prelude::*;\n'
    chunks.append(header)
    pre_text = ''
    repo_item_names = set()
    prelude_names = set()   # type / trait names the trusted stubs define: they stand for DEPENDENCY items
    for p in unit.prelude:
        private = False
        if isinstance(p, tuple):
            p, private = p[0], True
        with open(os.path.join(CONTRACTS, p)) as f:
            t = f.read()
        t = _cond(t, _ex.FEATURES)
        g.trusted += _scan_trusted(t, p)
        if private:
            t = _privatise(t)
        pre_text += '// ---- prelude: %s (trusted stubs: assumed contracts on dependencies)\n' % p + t + '\n'
        for m_ in re.finditer(r'^\s*(?:pub(?:\([^)]*\))?\s+)?(?:struct|enum|trait|type|union)\s+([A-Z]\w*)', t, re.M):
            prelude_names.add(m_.group(1))
        # names the prelude declares as SPECIFICATION stand-ins of items of the repository itself (not of a dependency) are exempt
        for m_ in re.finditer(r'^//@repo-items:(.*)$', t, re.M):
            repo_item_names.update(m_.group(1).split())
    spec_text = ''
    for p in unit.spec:
        with open(os.path.join(CONTRACTS, p)) as f:
            t = f.read()
        t = _cond(t, _ex.FEATURES)
        t = _privatise(t)
        spec_text += '// ---- spec: %s\n' % p + t + '\n'
        for c in _scan_trusted(t, p):
            if 'uninterpreted spec fn' in c or ': axiom fn ' in c:
                g.trusted.append(c)
            else:
                g.cheats_outside_prelude.append(c)
    body = []
    for spec in unit.items:
        try:
            item = find_item(repo, spec.file, spec.path, spec.nth)
        except LostAnchor as e:
            if getattr(spec, 'optional', False) and 'not found' in str(e):
                # absent optional item: its obligations are registered and hold vacuously
                k0 = spec.key or 'optional'
                for c in spec.ensures:
                    g.obligations['%s::%s::ens.%s' % (unit.name, k0, c.label)] = dict(props=c.props or spec.props, fn=k0, kind='postcondition (item absent: default applies)', expr=c.expr)
                for c in spec.hint_obligations:
                    g.obligations['%s::%s::hint.%s' % (unit.name, k0, c.label)] = dict(props=c.props or spec.props, fn=k0, kind='inherited postcondition (item absent: default applies)', expr=c.expr)
                g.obligations['%s::%s::safety' % (unit.name, k0)] = dict(props=spec.props, fn=k0, kind='body safety (item absent)', expr='n/a')
                for c in getattr(spec, 'review_if_present', []):
                    g.obligations['%s::%s::review.%s' % (unit.name, k0, c.label)] = dict(props=c.props or spec.props, fn=k0, kind='review obligation (item absent: default applies)', expr=c.expr)
                continue
            g.lost.append(str(e))
            continue
        key = _auto_key(item, spec)
        norms = []
        text = item.text
        text, r = A.n1_strip(text); norms += r
        text, r = A.n1_cfg(text, _ex._eval_cfg); norms += r
        text, r = A.n2_vis(text); norms += r
        lost_hints = []
        if spec.kind == 'struct':
            text, r = A.regex_rules(text, DEFAULT_RULES + unit.global_rules + spec.rules); norms += r
            pre = ''
            if spec.derive:
                pre += '#[derive(%s)]\n' % spec.derive
            if spec.attr:
                pre += spec.attr + '\n'
            out = '/*@FN:%s*/\n%s%s\n' % (key, pre, text)
        else:
            text, r = A.n7_use(text); norms += r
            text, r = A.n21_rename_has(text); norms += r
            if spec.mut_self:
                text, r = A.n3_receiver(text); norms += r
            for p in spec.mut_params:
                text, r = A.n3_param(text, p); norms += r
            if spec.mut_fields:
                text, r = A.n3_fields(text, spec.mut_fields); norms += r
            text, r = A.n6_enumerate(text); norms += r
            text, r = A.n18_continue(text); norms += r
            text, r = A.n22_while_let(text); norms += r
            if spec.brace_arms:
                text, r = A.n25_brace_arms(text); norms += r
            if spec.n4:
                text, r = A.n4_unwrap_or_else(text); norms += r
                text, r = A.n4b_ok_and_then(text); norms += r
                text, r = A.n4d_then_filter(text); norms += r
            if spec.n4c:
                text, r = A.n4c_map(text); norms += r
            if spec.n16:
                text, r = A.n16_add_assign(text); norms += r
            text, r = A.regex_rules(text, DEFAULT_RULES + unit.global_rules + spec.rules); norms += r
            text, hoisted, r = A.n14_hoist(text, guard=(dict(requires=[('guard.req.' + c.label, c.expr) for c in spec.guard.get('requires', [])], ensures=[('guard.ens.' + c.label, c.expr) for c in spec.guard.get('ensures', [])]) if spec.guard else None)); norms += r
            # module-level `const NAME: T = EXPR;` items of the same source file that the function mentions are carried along
            # (emitted once per unit, in front of the function)
            carried = ''
            if spec.file != _ex.EXPANDED:
                try:
                    src_all = open(os.path.join(repo, spec.file), encoding='utf-8').read()
                except Exception:
                    src_all = ''
                for cm in set(re.findall(r'(?<![:\w])([A-Z][A-Z0-9_]{2,})(?![\w:(!])', text)):
                    if cm in g.consts:
                        continue
                    dm = re.search(r'^(?:pub(?:\([^)]*\))?\s+)?const\s+%s\s*:\s*([^=;]+)=\s*([^;]+);' % re.escape(cm), src_all, re.M)
                    if dm:
                        g.consts.add(cm)
                        carried += 'const %s: %s = %s;\n' % (cm, dm.group(1).strip(), dm.group(2).strip())
                        norms.append(dict(rule='N1', before='module-level const %s' % cm, after='carried along with the function that uses it'))
            stubbed = False
            base_text = text
            spec_orig = spec
            if spec.bind:
                import copy as _copy
                vals, missing = {}, []
                for bn, brx in spec.bind.items():
                    bm = re.search(brx, text)
                    if bm:
                        vals[bn] = bm.group(1)
                    else:
                        missing.append(bn)
                def _sub(x):
                    if isinstance(x, str):
                        for bn, bv in vals.items():
                            x = x.replace('$' + bn, bv)
                        return x
                    if isinstance(x, Clause):
                        return Clause(x.label, _sub(x.expr), x.props)
                    if isinstance(x, tuple):
                        return tuple(_sub(y) for y in x)
                    if isinstance(x, list):
                        return [_sub(y) for y in x]
                    if isinstance(x, dict):
                        return {k_: _sub(v_) for k_, v_ in x.items()}
                    return x
                spec = _copy.copy(spec)
                spec.requires, spec.ensures, spec.loops = _sub(spec.requires), _sub(spec.ensures), _sub(spec.loops)
                spec.hints, spec.closures = _sub(spec.hints), _sub(spec.closures)
                if missing:
                    stub_fns = set(stub_fns or ()) | {key}
            try:
                if stub_fns and key in stub_fns:
                    raise A.Lost('function uses a construct outside the verifier\'s subset (or its annotations no longer fit)')
                # a name that the prelude defines as a stub of a DEPENDENCY item must not be (re)defined by the repository file the
                # function comes from: the stub's assumed contract would silently be applied to the local definition
                src_chk = src_all if spec.file != _ex.EXPANDED else _ex.expanded_text(repo)
                if src_chk:
                    own = {getattr(sp_, 'path', [''])[-1].split()[-1] for sp_ in unit.items if getattr(sp_, 'kind', '') == 'struct'}
                    for nm_ in sorted(prelude_names - own - repo_item_names):
                        if re.search(r'\b%s\b' % nm_, base_text) and re.search(r'^\s*(?:pub(?:\([^)]*\))?\s+)?(?:unsafe\s+)?(?:struct|enum|trait|union)\s+%s\b' % nm_, src_chk, re.M):
                            raise A.Lost('`%s` is defined in %s itself: the prelude stub of the dependency item of that name does not describe it' % (nm_, spec.file))
                if spec.ret:
                    text = A.set_return_name(text, spec.ret)
                def cname(n):
                    return ('closure%d' % n) if isinstance(n, int) else 'closure[%s]' % A.squash(n)
                text = A.insert_closures(text, {n: dict(c, requires=[((cname(n) + '.req.') + l, e) for (l, e) in c.get('requires', [])],
                                                         ensures=[((cname(n) + '.ens.') + l, e) for (l, e) in c.get('ensures', [])])
                                                for n, c in spec.closures.items()})
                loops = {}
                for n, l in spec.loops.items():
                    l2 = dict(l)
                    l2['invariant'] = [('loop%d.inv.%s' % (n, c.label), c.expr) for c in l.get('invariant', [])]
                    l2['ensures'] = [('loop%d.ens.%s' % (n, c.label), c.expr) for c in l.get('ensures', [])]
                    loops[n] = l2
                text = A.insert_loops(text, loops, total=(getattr(spec, 'loops_total', None) or (max(loops) + 1 if loops else None)))
                # SOFT hints (4th element 'soft') only carry a labelled assertion (no lemma call, not needed by any other obligation): if
                # their anchor statement is gone they are skipped, the assertion they carry becomes undecided for its property, and the rest
                # of the function is still verified — a dropped call must not hide behind the lost anchor of an assertion about it
                hard_hints = [h for h in spec.hints if not (len(h) >= 4 and h[3] == 'soft')]
                soft_hints = [tuple(h[:3]) for h in spec.hints if len(h) >= 4 and h[3] == 'soft']
                text, lost_hints = A.insert_hints(text, hard_hints)
                if lost_hints:
                    # a proof hint that has lost its anchor would make a true obligation unprovable: never verify without it
                    raise A.Lost('hint anchors lost: %s' % lost_hints)
                soft_lost_labels = []
                for sh in soft_hints:
                    text, lost1 = A.insert_hints(text, [sh])
                    if lost1:
                        soft_lost_labels += re.findall(r'/\*@L:(hint\.[\w.]+)\*/', sh[2])
                if vacuity:
                    text, _ = A.insert_hints(text, [('start', None, 'proof { /*@L:vacuity*/ assert(false); /*@E*/ }')])
                text = A.insert_header(text, [('req.' + c.label, c.expr) for c in spec.requires],
                                       [('ens.' + c.label, c.expr) for c in spec.ensures], spec.extra)
            except A.Lost as e:
                # ISOLATION: the function is emitted as a stub — its header and contract, no body — so that the rest of the unit is
                # still verified (callers see the contract as an assumption); its own obligations are undecided
                g.lost.append('%s: %s' % (key, e))
                g.stubbed.add(key)
                stubbed = True
                def cname(n):
                    return ('closure%d' % n) if isinstance(n, int) else 'closure[%s]' % A.squash(n)
                try:
                    text = base_text
                    if spec.ret:
                        text = A.set_return_name(text, spec.ret)
                    ft_ = A.FnText(text)
                    text = text[:ft_.toks[ft_.body_open].start] + '{ unimplemented!() }'
                    text = A.insert_header(text, [('req.' + c.label, c.expr) for c in spec.requires],
                                           [('ens.' + c.label, c.expr) for c in spec.ensures], '')
                    spec_attr_stub = '#[verifier::external_body]'
                    hoisted = ''
                except Exception as e2:
                    g.lost.append('%s: cannot even be stubbed: %s' % (key, e2))
                    continue
            attr_ = (('#[verifier::external_body]' + (' ' if spec.attr else '')) if stubbed else '') + (spec.attr or '')
            if spec.free:
                text = re.sub(r'\bfn\s+\w+', 'fn ' + spec.free, text, count=1)
                out = '/*@FN:%s*/\n%s%s\n' % (key, (attr_ + '\n') if attr_ else '', text)
            elif spec.group:
                out = '/*@FN:%s*/\n%s    %s\n' % (key, ('    ' + attr_ + '\n') if attr_ else '', text)
            elif item.parent is not None:
                ih = spec.impl_header
                if ih is None:
                    ih = ' '.join(item.parent.header.split())
                    ih, _ = A.n1_strip(ih)
                    ih, r = A.regex_rules(ih, unit.global_rules + spec.impl_rules); norms += r
                out = '%s%s {\n/*@FN:%s*/\n%s    %s\n}\n' % ((hoisted + '\n') if hoisted else '', ih, key, ('    ' + attr_ + '\n') if attr_ else '', text)
            else:
                out = '/*@FN:%s*/\n%s%s\n' % (key, (attr_ + '\n') if attr_ else '', text)
            if carried:
                g.carried_text = getattr(g, 'carried_text', '') + carried
            if drop_asserts:
                # (driver, second pass) labelled assertions of OTHER properties that failed in this function are left out, so that the
                # obligations of the property at hand are not proved under an assumption the verifier could not discharge
                for (dk, dl) in drop_asserts:
                    if dk == key:
                        out = re.sub(r'assert\(/\*@L:%s\*/.*?/\*@E\*/\);' % re.escape(dl), '', out, flags=re.S)
            # obligations
            fprops = spec.props
            for c in spec.ensures:
                g.obligations['%s::%s::ens.%s' % (unit.name, key, c.label)] = dict(props=c.props or fprops, fn=key, kind='postcondition', expr=c.expr)
            for n, l in spec.loops.items():
                for c in l.get('invariant', []):
                    g.obligations['%s::%s::loop%d.inv.%s' % (unit.name, key, n, c.label)] = dict(props=c.props or fprops, fn=key, kind='loop invariant', expr=c.expr)
                for c in l.get('ensures', []):
                    g.obligations['%s::%s::loop%d.ens.%s' % (unit.name, key, n, c.label)] = dict(props=c.props or fprops, fn=key, kind='loop ensures', expr=c.expr)
            for n, c in spec.closures.items():
                for (l, e) in c.get('ensures', []):
                    g.obligations['%s::%s::%s.ens.%s' % (unit.name, key, cname(n), l)] = dict(props=fprops, fn=key, kind='closure postcondition', expr=e)
            if spec.guard:
                for c in spec.guard.get('ensures', []):
                    g.obligations['%s::%s::guard.ens.%s' % (unit.name, key, c.label)] = dict(props=c.props or fprops, fn=key, kind='postcondition of the unwinding guard body', expr=c.expr)
            for c in spec.hint_obligations:
                g.obligations['%s::%s::hint.%s' % (unit.name, key, c.label)] = dict(props=c.props or fprops, fn=key, kind='assertion in proof hint', expr=c.expr)
            for lbl_ in (locals().get('soft_lost_labels') or []):
                rk_ = '%s::%s::%s' % (unit.name, key, lbl_)
                if rk_ in g.obligations:
                    g.obligations[rk_] = dict(g.obligations[rk_], kind='assertion in proof hint (its anchor statement is gone: undecided)')
                    g.review.add(rk_)
            soft_lost_labels = []
            for c in getattr(spec, 'review_if_present', []):
                rk = '%s::%s::review.%s' % (unit.name, key, c.label)
                g.obligations[rk] = dict(props=c.props or fprops, fn=key, kind='review obligation (optional item PRESENT: no contract can decide it)', expr=c.expr)
                g.review.add(rk)
            g.obligations['%s::%s::safety' % (unit.name, key)] = dict(
                props=spec.safety_props.split() if spec.safety_props else fprops, fn=key, kind='body safety',
                expr='callee preconditions, asserts/expect/unwrap (panic freedom), index bounds, arithmetic overflow, termination')
        body.append((out, dict(key=key, kind=spec.kind, file=spec.file, path=spec.path, lines=item.lines,
                               sha256=item.sha256, norms=norms, lost_hints=lost_hints, group=getattr(spec, 'group', None))))

    full = header + 'use std::ops::{Deref, DerefMut};\nuse std::marker::PhantomData;\nverus! {\n' + pre_text + spec_text + getattr(g, 'carried_text', '') + '// ---- extracted from %s\n' % repo
    line = full.count('\n') + 1
    # group blocks: members are emitted together, at the position of the first member
    grouped = []
    seen_groups = {}
    for (out, meta) in body:
        gname = meta.get('group')
        if gname:
            if gname not in seen_groups:
                gd = unit.groups[gname]
                pre = gd.get('pre', '')
                if pre.endswith('.rs'):
                    with open(os.path.join(CONTRACTS, pre)) as f:
                        pre = f.read()
                pre = _cond(pre, _ex.FEATURES)
                if gd.get('private', True):
                    pre = _privatise(pre)
                seen_groups[gname] = len(grouped)
                grouped.append([('%s {\n%s\n' % (gd['header'], pre), None)])
            grouped[seen_groups[gname]].append((out, meta))
        else:
            grouped.append([(out, meta)])
    flat = []
    for grp in grouped:
        flat += grp
        if grp[0][1] is None:
            flat.append(('}\n', None))
    for (out, meta) in flat:
        if meta is None:
            full += out
            line += out.count('\n')
            continue
        n = out.count('\n')
        meta['gen_lines'] = (line, line + n)
        g.fn_ranges.append((line, line + n, meta['key']))
        g.items.append(meta)
        full += out
        line += n
    full += '} // verus!\nfn main() {}\n'
    if falsify:
        # plumbing self-test (dev only): every postcondition / invariant clause is conjoined with `false`, so each registered
        # obligation of those kinds must come back as a FAILED obligation under its registered name
        full = re.sub(r'(/\*@L:(?:ens|trait|loop\d+\.(?:inv|ens)|closure)[^*]*\*/)(.*?)(/\*@E\*/)',
                      lambda m: '%s ((%s) && false) %s' % (m.group(1), m.group(2).strip(), m.group(3)), full, flags=re.S)
    g.text = full
    g.labels = label_regions(full)
    # lemmas in spec text: `proof fn name` preceded by `//@props ...`
    for m in re.finditer(r'(?://@props\s+([^\n]*)\n\s*)?(?:pub\s+)?(?:broadcast\s+)?proof\s+fn\s+(\w+)', full):
        a = full.count('\n', 0, m.start()) + 1
        # end: matching brace of body
        props = m.group(1).split() if m.group(1) else []
        g.lemmas[m.group(2)] = (a, props)
        if props:
            g.obligations['%s::lemma::%s' % (unit.name, m.group(2))] = dict(props=props, fn='lemma::' + m.group(2), kind='lemma', expr='proof fn ' + m.group(2))
    return g


def label_regions(full):
    out = []
    for m in re.finditer(r'/\*@L:([^*]+)\*/(.*?)/\*@E\*/', full, re.S):
        a = full.count('\n', 0, m.start()) + 1
        b = full.count('\n', 0, m.end()) + 1
        ca = m.start() - (full.rfind('\n', 0, m.start()) + 1) + 1
        cb = m.end() - (full.rfind('\n', 0, m.end()) + 1) + 1
        out.append((a, ca, b, cb, m.group(1)))
    return out


def not_under_contract(unit, repo):
    covered = set()
    for spec in unit.items:
        if spec.kind == 'fn':
            covered.add((spec.file, squash(spec.path[-1])))
    out = []
    for f in unit.files:
        for (path, it) in list_fns(repo, f):
            if (f, squash(path[-1])) not in covered:
                out.append('%s :: %s (lines %d-%d)' % (f, ' :: '.join(path), it.lines[0], it.lines[1]))
    return out
