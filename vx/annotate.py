"""Normalisation passes and annotation insertion on extracted function text.

Every pass lexes the current text, computes non-overlapping edits
(start, end, replacement) and applies them. Annotations are wrapped in marker
comments  /*@L:<label>*/ ... /*@E*/  so that verifier diagnostics (line/col in
the generated file) can be mapped back to a named clause.
"""
import re
from .lexer import lex, code, match_close, squash, OPEN, CLOSE


class Lost(Exception):
    """an anchor (loop/closure ordinal, hint pattern) could not be found"""


def apply_edits(text, edits):
    edits = sorted(edits, key=lambda e: (e[0], e[1]))
    out, pos = [], 0
    for (a, b, rep) in edits:
        if a < pos:
            raise ValueError('overlapping edits at %d' % a)
        out.append(text[pos:a])
        out.append(rep)
        pos = b
    out.append(text[pos:])
    return ''.join(out)


def mark(label, text):
    return '/*@L:%s*/ %s /*@E*/' % (label, text)


# ---------------------------------------------------------------- structure

class FnText:
    """token view of `<header> { body }`"""

    def __init__(self, text):
        self.text = text
        self.toks = lex(text)
        self.c = code(self.toks)
        # body '{' = first '{' at ()[] depth 0
        depth = 0
        self.body_open = None
        for k in self.c:
            t = self.toks[k]
            if t.kind == 'punct':
                if t.text in '([':
                    depth += 1
                elif t.text in ')]':
                    depth -= 1
                elif t.text == '{' and depth == 0:
                    self.body_open = k
                    break
                elif t.text == ';' and depth == 0:
                    break
        self.body_close = match_close(self.toks, self.body_open) if self.body_open is not None else None

    def nextc(self, k):
        """next code token index after k"""
        for j in range(k + 1, len(self.toks)):
            if self.toks[j].kind not in ('ws', 'lcomment', 'bcomment', 'doc'):
                return j
        return None

    def prevc(self, k):
        for j in range(k - 1, -1, -1):
            if self.toks[j].kind not in ('ws', 'lcomment', 'bcomment', 'doc'):
                return j
        return None


BLOCKLIKE = ('for', 'while', 'loop', 'if', 'match', 'unsafe', '{')


def split_stmts(ft, lo, hi):
    """statements among tokens (lo, hi) exclusive: list of (first_tok, last_tok)."""
    toks = ft.toks
    out = []
    k = lo + 1
    while k < hi:
        if toks[k].kind in ('ws', 'lcomment', 'bcomment', 'doc'):
            k += 1
            continue
        s0 = k
        first = toks[k]
        blocklike = first.text in BLOCKLIKE
        if first.kind == 'life':  # 'label: loop
            blocklike = True
        j = k
        end = None
        while j < hi:
            t = toks[j]
            if t.kind == 'punct' and t.text in OPEN:
                close = match_close(toks, j)
                if t.text == '{' and blocklike:
                    n = ft.nextc(close)
                    if n is not None and n < hi and toks[n].text == 'else':
                        j = n + 1
                        continue
                    if n is not None and n < hi and toks[n].text in ('.', '?'):
                        blocklike = False
                        j = close + 1
                        continue
                    end = close
                    if n is not None and n < hi and toks[n].text == ';':
                        end = n
                    break
                j = close + 1
                continue
            if t.kind == 'punct' and t.text == ';':
                end = j
                break
            j += 1
        if end is None:
            # tail expression
            last = hi - 1
            while toks[last].kind in ('ws', 'lcomment', 'bcomment', 'doc'):
                last -= 1
            out.append((s0, last, True))
            break
        out.append((s0, end, False))
        k = end + 1
    return out


def stmt_text(ft, s):
    return ft.text[ft.toks[s[0]].start:ft.toks[s[1]].end]


def find_stmt(ft, pattern, lo=None, hi=None):
    """innermost statement whose text contains pattern (whitespace-insensitive)."""
    if lo is None:
        lo, hi = ft.body_open, ft.body_close
    p = squash(pattern)
    for s in split_stmts(ft, lo, hi):
        if p in squash(stmt_text(ft, s)):
            # descend into blocks of this statement
            k = s[0]
            while k <= s[1]:
                t = ft.toks[k]
                if t.kind == 'punct' and t.text == '{':
                    close = match_close(ft.toks, k)
                    inner = find_stmt(ft, pattern, k, close)
                    if inner is not None:
                        return inner
                    k = close + 1
                elif t.kind == 'punct' and t.text in '([':
                    # closures / blocks inside call arguments
                    close = match_close(ft.toks, k)
                    kk = k + 1
                    found = None
                    while kk < close:
                        if ft.toks[kk].kind == 'punct' and ft.toks[kk].text == '{':
                            c2 = match_close(ft.toks, kk)
                            found = find_stmt(ft, pattern, kk, c2)
                            if found is not None:
                                return found
                            kk = c2 + 1
                        else:
                            kk += 1
                    k = close + 1
                else:
                    k += 1
            return s
    return None


def find_loops(ft):
    """[(kw_tok, open_brace_tok, close_brace_tok)] in order of appearance within the body"""
    out = []
    toks = ft.toks
    for k in ft.c:
        if ft.body_open is None or k <= ft.body_open or k >= ft.body_close:
            continue
        t = toks[k]
        if t.kind == 'ident' and t.text in ('for', 'while', 'loop'):
            p = ft.prevc(k)
            if p is not None and toks[p].text in ('.', '::'):
                continue
            if t.text == 'for':
                # `for<'a>` in HRTB
                n = ft.nextc(k)
                if toks[n].text == '<':
                    continue
            # header ends at first '{' at ()[] depth 0
            depth = 0
            j = k + 1
            while j < ft.body_close:
                u = toks[j]
                if u.kind == 'punct':
                    if u.text in '([':
                        depth += 1
                    elif u.text in ')]':
                        depth -= 1
                    elif u.text == '{' and depth == 0:
                        break
                j += 1
            out.append((k, j, match_close(toks, j)))
    return out


def find_closures(ft):
    """[(bar1_tok, bar2_tok, body_first_tok, body_last_tok, is_block)] within the body."""
    out = []
    toks = ft.toks
    idx = 0
    c = [k for k in ft.c if ft.body_open < k < ft.body_close]
    i = 0
    while i < len(c):
        k = c[i]
        t = toks[k]
        if t.kind == 'punct' and t.text in ('|', '||'):
            p = ft.prevc(k)
            pt = toks[p]
            starts = pt.text in ('(', ',', '=', '{', ';', 'move', '=>', 'return') or pt.text == '['
            if starts:
                if t.text == '||':
                    bar2 = k
                else:
                    # closing bar: next '|' at depth 0
                    depth = 0
                    j = k + 1
                    while True:
                        u = toks[j]
                        if u.kind == 'punct':
                            if u.text in OPEN or u.text == '<':
                                depth += 1
                            elif u.text in CLOSE or u.text == '>':
                                depth -= 1
                            elif u.text == '|' and depth == 0:
                                break
                        j += 1
                    bar2 = j
                b0 = ft.nextc(bar2)
                # optional `-> T` return type followed by block
                if toks[b0].text == '->':
                    j = b0
                    while toks[j].text != '{':
                        j += 1
                    b0 = j
                if toks[b0].text == '{':
                    b1 = match_close(toks, b0)
                    is_block = True
                else:
                    depth = 0
                    j = b0
                    last = b0
                    while True:
                        u = toks[j]
                        if u.kind == 'punct':
                            if u.text in OPEN:
                                j = match_close(toks, j)
                                last = j
                                j += 1
                                continue
                            if u.text in (')', ']', '}', ',', ';'):
                                break
                        if u.kind not in ('ws', 'lcomment', 'bcomment', 'doc'):
                            last = j
                        j += 1
                    b1 = last
                    is_block = False
                out.append((k, bar2, b0, b1, is_block))
        i += 1
    return out


# ---------------------------------------------------------------- normalisations
# each returns (new_text, [record]) ; record = dict(rule, before, after)

def n1_strip(text):
    """N1: drop doc comments, #[inline]/#[must_use]/#[allow]/#[derive] attributes, log::warn!/log::* statements."""
    toks = lex(text)
    edits, recs = [], []
    k = 0
    while k < len(toks):
        t = toks[k]
        if t.kind == 'doc':
            edits.append((t.start, t.end, ''))
        elif t.text == '#' and k + 1 < len(toks):
            j = k + 1
            while toks[j].kind == 'ws':
                j += 1
            if toks[j].text == '[':
                close = match_close(toks, j)
                inner = text[toks[j].end:toks[close].start].strip()
                if re.match(r'(inline|must_use|allow|derive|doc|cold|track_caller|non_exhaustive|deprecated|repr|serde)\b', inner):
                    edits.append((t.start, toks[close].end, ''))
                    recs.append(dict(rule='N1', before=text[t.start:toks[close].end], after=''))
                k = close
        elif t.kind == 'ident' and t.text == 'log' and k + 4 < len(toks) and toks[k + 1].text == '::':
            # log::warn!( ... );
            j = k + 2
            if toks[j].kind == 'ident' and toks[j + 1].text == '!':
                o = j + 2
                while toks[o].kind == 'ws':
                    o += 1
                if toks[o].text in OPEN:
                    close = match_close(toks, o)
                    e = close + 1
                    while e < len(toks) and toks[e].kind == 'ws':
                        e += 1
                    if e < len(toks) and toks[e].text == ';':
                        close = e
                        rep = ''
                    else:
                        rep = '()'     # the macro call is used as an expression (e.g. a match arm): its value is ()
                    edits.append((t.start, toks[close].end, rep))
                    recs.append(dict(rule='N1', before=text[t.start:toks[close].end], after=rep))
                    k = close
        k += 1
    return apply_edits(text, edits), recs


def n2_vis(text):
    """N2: drop visibility qualifiers on the extracted item (single module file)."""
    toks = lex(text)
    edits = []
    k = 0
    while k < len(toks):
        t = toks[k]
        if t.kind == 'ident' and t.text == 'pub':
            end = t.end
            j = k + 1
            while j < len(toks) and toks[j].kind == 'ws':
                j += 1
            if j < len(toks) and toks[j].text == '(':
                close = match_close(toks, j)
                end = toks[close].end
                k = close
            # eat following whitespace
            m = re.match(r'[ \t]*', text[end:])
            edits.append((t.start, end + m.end(), ''))
        k += 1
    new = apply_edits(text, edits)
    return new, ([dict(rule='N2', before='pub / pub(crate)', after='')] if edits else [])


def n3_receiver(text):
    """N3: `&self` -> `&mut self` in the signature."""
    ft = FnText(text)
    hdr_end = ft.toks[ft.body_open].start if ft.body_open is not None else len(text)
    m = re.search(r'\(\s*&\s*(\'\w+\s+)?self\b', text[:hdr_end])
    if not m:
        return text, []
    new = text[:m.start()] + re.sub(r'&\s*(\'\w+\s+)?self', lambda mm: '&' + (mm.group(1) or '') + 'mut self', m.group(0)) + text[m.end():]
    return new, [dict(rule='N3', before='&self', after='&mut self')]


def n3_fields(text, fields):
    """N3: `&self.<field>` -> `&mut self.<field>` for interior-mutable fields."""
    recs = []
    for f in fields:
        pat = re.compile(r'&\s*self\.' + re.escape(f) + r'\b')
        if pat.search(text):
            text = pat.sub('&mut self.' + f, text)
            recs.append(dict(rule='N3', before='&self.' + f, after='&mut self.' + f))
    return text, recs


def n3_param(text, name):
    """N3: parameter `<name>: &T` -> `<name>: &mut T` in the signature."""
    ft = FnText(text)
    hdr_end = ft.toks[ft.body_open].start if ft.body_open is not None else len(text)
    pat = re.compile(r'\b' + re.escape(name) + r'\s*:\s*&\s*(?!mut\b)')
    m = pat.search(text[:hdr_end])
    if not m:
        return text, []
    return text[:m.end()] + 'mut ' + text[m.end():], [dict(rule='N3', before=name + ': &T', after=name + ': &mut T')]


def n4_unwrap_or_else(text, only_mut_capture=True):
    """N4: `X.unwrap_or_else(|| B)` -> `match X { Some(v__) => v__, None => B }`
    for zero-argument closure literals (definitional unfolding of Option::unwrap_or_else)."""
    recs = []
    while True:
        ft = FnText(text)
        toks = ft.toks
        done = True
        for i, k in enumerate(ft.c):
            t = toks[k]
            if t.kind == 'ident' and t.text == 'unwrap_or_else' and toks[ft.prevc(k)].text == '.':
                o = ft.nextc(k)
                if toks[o].text != '(':
                    continue
                b = ft.nextc(o)
                if toks[b].text != '||':
                    continue
                close = match_close(toks, o)
                body0 = ft.nextc(b)
                # receiver start: walk back from '.' to statement/arg start at depth 0
                dot = ft.prevc(k)
                j = dot - 1
                depth = 0
                start = None
                while j >= 0:
                    u = toks[j]
                    if u.kind == 'punct':
                        if u.text in CLOSE:
                            depth += 1
                        elif u.text in OPEN:
                            if depth == 0:
                                start = j + 1
                                break
                            depth -= 1
                        elif depth == 0 and u.text in ('=', ';', ',', '=>', '==') :
                            start = j + 1
                            break
                    elif u.kind == 'ident' and depth == 0 and u.text in ('return', 'in'):
                        start = j + 1
                        break
                    j -= 1
                while toks[start].kind == 'ws':
                    start += 1
                before = text[toks[start].start:toks[close].end]
                edits = [
                    (toks[start].start, toks[start].start, 'match '),
                    (toks[dot].start, toks[body0].start, ' { Some(v__) => v__, None => '),
                    (toks[close].start, toks[close].end, ' }'),
                ]
                text = apply_edits(text, edits)
                recs.append(dict(rule='N4', before=squash(before)[:80], after='match .. { Some(v__) => v__, None => .. }'))
                done = False
                break
        if done:
            break
    return text, recs


def n6_enumerate(text):
    """N6: `for (i, &x) in S.iter().enumerate() {` -> `for i in 0..S.len() { let x = S[i];`"""
    pat = re.compile(r'for\s*\(\s*(\w+)\s*,\s*&\s*(\w+)\s*\)\s*in\s*([\w\.]+?)\.iter\(\)\.enumerate\(\)\s*\{')
    recs = []

    def rep(m):
        recs.append(dict(rule='N6', before=m.group(0), after='for %s in 0..%s.len() { let %s = %s[%s];' % (m.group(1), m.group(3), m.group(2), m.group(3), m.group(1))))
        return 'for %s in 0..%s.len() { let %s = %s[%s];' % (m.group(1), m.group(3), m.group(2), m.group(3), m.group(1))
    return pat.sub(rep, text), recs


def n7_use(text):
    """N7: remove `use std::usize;` and other function-local `use` lines of items provided by the prelude."""
    pat = re.compile(r'^[ \t]*use\s+(std::usize|hibitset::BitSetLike|crate::join::Join|std::\w+::\w+);[ \t]*\n', re.M)
    recs = [dict(rule='N7', before=m.group(0).strip(), after='') for m in pat.finditer(text)]
    return pat.sub('', text), recs


def regex_rules(text, rules):
    """closed per-item list of (rule_id, regex, replacement) structural rewrites"""
    recs = []
    for (rid, pat, rep) in rules:
        new, n = re.subn(pat, rep, text)
        if n:
            recs.append(dict(rule=rid, before=pat, after=rep, count=n))
            text = new
    return text, recs


# ---------------------------------------------------------------- annotations

def set_return_name(text, name):
    """`-> T` becomes `-> (name: T)`; a fn without return type is left alone."""
    ft = FnText(text)
    toks = ft.toks
    depth = 0
    arrow = None
    for k in ft.c:
        if ft.body_open is not None and k >= ft.body_open:
            break
        t = toks[k]
        if t.kind == 'punct':
            if t.text in '([<':
                depth += 1
            elif t.text in ')]>':
                depth -= 1
            elif t.text == '->' and depth == 0:
                arrow = k
                break
    if arrow is None:
        return text
    # return type ends at `where` (depth 0) or body
    depth = 0
    endk = ft.body_open if ft.body_open is not None else len(toks) - 1
    j = arrow + 1
    while j < endk:
        t = toks[j]
        if t.kind == 'punct':
            if t.text in '([<':
                depth += 1
            elif t.text in ')]>':
                depth -= 1
        if t.kind == 'ident' and t.text == 'where' and depth == 0:
            endk = j
            break
        j += 1
    a = toks[ft.nextc(arrow)].start
    last = endk - 1
    while toks[last].kind in ('ws', 'lcomment', 'bcomment', 'doc'):
        last -= 1
    b = toks[last].end
    return text[:a] + '(' + name + ': ' + text[a:b] + ')' + text[b:]


def insert_header(text, requires, ensures, extra=''):
    """insert requires/ensures (lists of (label, expr)) before the body."""
    ft = FnText(text)
    pos = ft.toks[ft.body_open].start
    head = text[:pos].rstrip()
    parts = []
    # where clause must end with a comma before `requires`
    if re.search(r'\bwhere\b', head) and not head.endswith(','):
        head += ','
    if requires:
        parts.append('    requires\n' + ''.join('        %s,\n' % mark(l, e) for (l, e) in requires))
    if ensures:
        parts.append('    ensures\n' + ''.join('        %s,\n' % mark(l, e) for (l, e) in ensures))
    if extra:
        parts.append('    ' + extra + '\n')
    return head + '\n' + ''.join(parts) + text[pos:]


def insert_loops(text, loops, total=None):
    """loops: {ordinal: dict(invariant=[(label, expr)], decreases='..', ensures=[...], pre='text before loop')}"""
    if not loops:
        return text
    ft = FnText(text)
    found = find_loops(ft)
    edits = []
    # the invariants were written for a function with exactly these loops: with a loop added, removed or re-ordered they would be attached
    # to a loop they were not written for (and fail for no semantic reason) — never verify in that case
    if total is not None and len(found) != total:
        raise Lost('the function has %d loop(s), its loop annotations were written for %d' % (len(found), total))
    for n, spec in loops.items():
        if n >= len(found):
            raise Lost('loop #%d not found' % n)
        kw, ob, cb = found[n]
        if spec.get('over'):
            hdr_ = squash(ft.text[ft.toks[kw].start:ft.toks[ob].start])
            if squash(spec['over']) not in hdr_:
                raise Lost('loop #%d no longer iterates over `%s`' % (n, spec['over']))
        s = '\n'
        inv = spec.get('invariant') or []
        if inv:
            s += '            invariant\n' + ''.join('                %s,\n' % mark(l, e) for (l, e) in inv)
        ens = spec.get('ensures') or []
        if ens:
            s += '            ensures\n' + ''.join('                %s,\n' % mark(l, e) for (l, e) in ens)
        if spec.get('decreases'):
            s += '            decreases %s,\n' % spec['decreases']
        edits.append((ft.toks[ob].start, ft.toks[ob].start, s + '        '))
        if spec.get('iter_name'):
            # `for x in E` -> `for x in <name>: E`
            # find `in` token after kw at depth 0
            j = kw + 1
            depth = 0
            while j < ob:
                u = ft.toks[j]
                if u.kind == 'punct':
                    if u.text in '([':
                        depth += 1
                    elif u.text in ')]':
                        depth -= 1
                if u.kind == 'ident' and u.text == 'in' and depth == 0:
                    edits.append((u.end, u.end, ' ' + spec['iter_name'] + ':'))
                    break
                j += 1
        if spec.get('start'):
            edits.append((ft.toks[ob].end, ft.toks[ob].end, '\n' + spec['start'] + '\n'))
        if spec.get('end'):
            edits.append((ft.toks[cb].start, ft.toks[cb].start, '\n' + spec['end'] + '\n'))
        if spec.get('attr'):
            # attribute before the loop keyword
            edits.append((ft.toks[kw].start, ft.toks[kw].start, spec['attr'] + ' '))
    return apply_edits(text, edits)


def insert_closures(text, closures):
    """closures: {ordinal: dict(params='a: T, b: U', ret='r: R', requires=[..], ensures=[..])}"""
    if not closures:
        return text
    ft = FnText(text)
    found = find_closures(ft)
    edits = []
    todo = []
    renamed = []   # (closure index, alpha-renamed spec): used only for closures no key matches exactly, and only if unambiguous
    for n, spec in closures.items():
        if isinstance(n, str):
            # pattern key: every closure whose text (whitespace-insensitive) equals the pattern; none is fine
            for idx, f in enumerate(found):
                txt = squash(ft.text[ft.toks[f[0]].start:ft.toks[f[3]].end])
                params = squash(ft.text[ft.toks[f[0]].start:ft.toks[f[1]].end])
                key = squash(n)
                # `method:|a, b|` = a closure with that parameter list passed directly to `.method(`;
                # `|a, b|` alone matches on the parameter list; anything else on the whole closure text
                meth = None
                if ':|' in key and not key.startswith('|'):
                    meth, key = key.split(':', 1)
                    p1 = ft.prevc(f[0])
                    p2 = ft.prevc(p1) if p1 is not None else None
                    if not (p1 is not None and ft.toks[p1].text == '(' and p2 is not None and ft.toks[p2].text == meth):
                        continue
                if (key.endswith('|') and key == params) or key == txt:
                    todo.append((idx, spec))
                elif key.endswith('|') and key.startswith('|'):
                    # same adaptor, same NUMBER of simple identifier parameters under other names (a renamed closure parameter):
                    # the annotation is alpha-renamed to the names the code uses
                    def _names(pl):
                        inner = pl.strip()[1:-1]
                        if not inner.strip():
                            return []
                        out_ = []
                        for part in inner.split(','):
                            nm = part.split(':', 1)[0].strip()
                            if nm.startswith('mut'):
                                nm = nm[3:].strip()
                            if not re.match(r'^[A-Za-z][A-Za-z0-9_]*$', nm):
                                return None
                            out_.append(nm)
                        return out_
                    raw_params = ft.text[ft.toks[f[0]].start:ft.toks[f[1]].end]
                    dn, an = _names(n.split(':', 1)[1] if (':|' in n and not n.strip().startswith('|')) else n), _names(raw_params)
                    if dn and an and len(dn) == len(an) and dn != an and len(set(an)) == len(an):
                        def _ren(x):
                            if isinstance(x, str):
                                tmp = x
                                for i_, d_ in enumerate(dn):
                                    tmp = re.sub(r'(?<![\w.])%s\b' % re.escape(d_), '\x00%d\x00' % i_, tmp)
                                for i_, a_ in enumerate(an):
                                    tmp = tmp.replace('\x00%d\x00' % i_, a_)
                                return tmp
                            if isinstance(x, (list, tuple)):
                                return type(x)(_ren(y) for y in x)
                            return x
                        spec2 = dict(spec)
                        spec2['params'] = _ren(spec.get('params', ''))
                        spec2['requires'] = [(l, _ren(e)) for (l, e) in spec.get('requires', [])]
                        spec2['ensures'] = [(l, _ren(e)) for (l, e) in spec.get('ensures', [])]
                        renamed.append((idx, spec2))
            continue
        if n >= len(found):
            raise Lost('closure #%d not found' % n)
        todo.append((n, spec))
    exact = {i_ for (i_, _s) in todo}
    cand = {}
    for (i_, sp_) in renamed:
        cand.setdefault(i_, []).append(sp_)
    for i_, sps in cand.items():
        if i_ not in exact and len(sps) == 1:
            todo.append((i_, sps[0]))
    for n, spec in todo:
        b1, b2, s0, s1, is_block = found[n]
        toks = ft.toks
        hdr = '|' + spec.get('params', '') + '|'
        if spec.get('ret'):
            hdr += ' -> (' + spec['ret'] + ')'
        cl = ''
        if spec.get('requires'):
            cl += ' requires ' + ', '.join(mark(l, e) for (l, e) in spec['requires']) + ','
        if spec.get('ensures'):
            cl += ' ensures ' + ', '.join(mark(l, e) for (l, e) in spec['ensures']) + ','
        edits.append((toks[b1].start, toks[b2].end, hdr + cl))
        if not is_block:
            edits.append((toks[s0].start, toks[s0].start, '{ '))
            edits.append((toks[s1].end, toks[s1].end, ' }'))
    return apply_edits(text, edits)


def insert_hints(text, hints):
    """hints: list of (where, pattern, ghost_text); where in start|before|after|before_tail.
    returns (text, lost) — a lost hint is skipped and reported."""
    lost = []
    for (where, pattern, ghost) in hints or []:
        ft = FnText(text)
        toks = ft.toks
        if where == 'start':
            pos = toks[ft.body_open].end
        elif where == 'before_tail':
            st = split_stmts(ft, ft.body_open, ft.body_close)
            if not st or not st[-1][2]:
                pos = toks[ft.body_close].start
            else:
                pos = toks[st[-1][0]].start
        elif where in ('before_loop', 'after_loop'):
            loops = find_loops(ft)
            if pattern >= len(loops):
                lost.append('%s #%d' % (where, pattern))
                continue
            kw, ob, cb = loops[pattern]
            pos = toks[kw].start if where == 'before_loop' else toks[cb].end
        elif where == 'block_start':
            # start of the first `{` block of the innermost statement matching pattern
            s = find_stmt(ft, pattern)
            if s is None:
                lost.append('%s %r' % (where, pattern))
                continue
            k = s[0]
            while k <= s[1] and toks[k].text != '{':
                k += 1
            if k > s[1]:
                lost.append('%s %r (no block)' % (where, pattern))
                continue
            pos = toks[k].end
        else:
            s = find_stmt(ft, pattern)
            if s is None:
                lost.append('%s %r' % (where, pattern))
                continue
            if where == 'after' and len(s) > 2 and s[2]:
                # the statement is a block's tail expression: `E` -> `let r__ = E; <ghost> r__` (same value, same effects)
                a, b = toks[s[0]].start, toks[s[1]].end
                text = text[:a] + 'let r__ = ' + text[a:b] + ';\n' + ghost + '\nr__' + text[b:]
                continue
            pos = toks[s[0]].start if where == 'before' else toks[s[1]].end
        text = text[:pos] + '\n' + ghost + '\n' + text[pos:]
    return text, lost


def n14_hoist(text, guard=None):
    """N14: item statements nested in a function body (`struct X..;`, `impl .. {..}`) are moved to module
    level (Verus does not support internal item statements); a hoisted `Drop::drop` gets the mode
    annotation Verus demands (`opens_invariants none no_unwind`). Returns (text, hoisted_text, records)."""
    hoisted, recs = [], []
    while True:
        ft = FnText(text)
        if ft.body_open is None:
            break
        found = None

        def scan(lo, hi):
            for s in split_stmts(ft, lo, hi):
                first = ft.toks[s[0]]
                if first.kind == 'ident' and first.text in ('struct', 'impl') and lo != -1:
                    return s
                k = s[0]
                while k <= s[1]:
                    t = ft.toks[k]
                    if t.kind == 'punct' and t.text == '{':
                        close = match_close(ft.toks, k)
                        r = scan(k, close)
                        if r is not None:
                            return r
                        k = close + 1
                    else:
                        k += 1
            return None
        found = scan(ft.body_open, ft.body_close)
        if found is None:
            break
        # an item ends at the `}` of its first top-level brace block, or at `;` if none comes first
        k = found[0]
        endk = found[1]
        depth = 0
        while k <= found[1]:
            t = ft.toks[k]
            if t.kind == 'punct':
                if t.text in '([':
                    depth += 1
                elif t.text in ')]':
                    depth -= 1
                elif t.text == '{' and depth == 0:
                    endk = match_close(ft.toks, k)
                    break
                elif t.text == ';' and depth == 0:
                    endk = k
                    break
            k += 1
        a, b = ft.toks[found[0]].start, ft.toks[endk].end
        item = text[a:b]
        if re.match(r'impl\b[^{]*\bDrop\s+for\b', item):
            # a Drop guard's body only runs during unwinding, which this family does not model: the `impl Drop` itself stays external text
            copy = ''
            if guard:
                # ... but the SAME body is also emitted as an inherent method `unwind_drop` carrying the guard contract, so that
                # "running the guard from the state at the potential panic point restores the invariant" is a checked obligation
                m = re.match(r'impl(\s*<[^{]*?>)?\s+Drop\s+for\s+([^{]*?)\s*\{', item, re.S)
                body = item[m.end():item.rindex('}')]
                body = re.sub(r'\bfn\s+drop\s*\(\s*&mut\s+self\s*\)', 'fn unwind_drop(&mut self)\n    requires\n        %s\n    ensures\n        %s\n' % (
                    ',\n        '.join(mark(l, e) for (l, e) in guard.get('requires', [])) + ',',
                    ',\n        '.join(mark(l, e) for (l, e) in guard.get('ensures', [])) + ','), body, count=1)
                copy = '\nimpl%s %s {%s}\n' % (m.group(1) or '', m.group(2), body)
                recs.append(dict(rule='N14', before='Drop guard body', after='also emitted as inherent method unwind_drop under the guard contract'))
            item = '#[verifier::external]\n' + item + copy
        hoisted.append(item)
        recs.append(dict(rule='N14', before='nested item: ' + squash(item)[:60], after='hoisted to module level'))
        text = text[:a] + text[b:]
    return text, '\n'.join(hoisted), recs


def n4b_ok_and_then(text):
    """N4b: `X.ok().and_then([move] |_| B)` -> `match X { Ok(_) => B, Err(_) => None }`
    (definitional unfolding of Result::ok followed by Option::and_then; Verus rejects closures capturing &mut)."""
    recs = []
    while True:
        ft = FnText(text)
        toks = ft.toks
        hit = None
        for k in ft.c:
            t = toks[k]
            if t.kind == 'ident' and t.text == 'ok' and toks[ft.prevc(k)].text == '.':
                o = ft.nextc(k)
                if toks[o].text != '(' or toks[ft.nextc(o)].text != ')':
                    continue
                d2 = ft.nextc(ft.nextc(o))
                if toks[d2].text != '.':
                    continue
                at = ft.nextc(d2)
                if toks[at].text != 'and_then':
                    continue
                po = ft.nextc(at)
                if toks[po].text != '(':
                    continue
                b = ft.nextc(po)
                if toks[b].text == 'move':
                    b = ft.nextc(b)
                if toks[b].text != '|':
                    continue
                u = ft.nextc(b)
                if toks[u].text != '_' or toks[ft.nextc(u)].text != '|':
                    continue
                body0 = ft.nextc(ft.nextc(u))
                close = match_close(toks, po)
                dot = ft.prevc(k)
                # receiver start
                j = dot - 1
                depth = 0
                start = None
                while j >= 0:
                    w = toks[j]
                    if w.kind == 'punct':
                        if w.text in CLOSE:
                            depth += 1
                        elif w.text in OPEN:
                            if depth == 0:
                                start = j + 1
                                break
                            depth -= 1
                        elif depth == 0 and w.text in ('=', ';', ',', '=>'):
                            start = j + 1
                            break
                    elif w.kind == 'ident' and depth == 0 and w.text in ('return', 'in', 'else'):
                        start = j + 1
                        break
                    j -= 1
                while toks[start].kind in ('ws', 'lcomment', 'bcomment', 'doc'):
                    start += 1
                hit = (start, dot, body0, close)
                break
        if hit is None:
            break
        start, dot, body0, close = hit
        edits = [(toks[start].start, toks[start].start, 'match '),
                 (toks[dot].start, toks[body0].start, ' { Ok(_) => '),
                 (toks[close].start, toks[close].end, ', Err(_) => None }')]
        text = apply_edits(text, edits)
        recs.append(dict(rule='N4b', before='X.ok().and_then(|_| B)', after='match X { Ok(_) => B, Err(_) => None }'))
    return text, recs


def n1_cfg(text, eval_cfg):
    """N1: `#[cfg(..)]` attributes inside an extracted item are resolved for the unit's feature set:
    a true one is dropped, a false one is dropped together with the element it guards
    (struct field / struct-literal field / statement / nested fn)."""
    recs = []
    while True:
        toks = lex(text)
        hit = None
        for k, t in enumerate(toks):
            if t.text == '#':
                j = k + 1
                while toks[j].kind == 'ws':
                    j += 1
                if toks[j].text != '[':
                    continue
                close = match_close(toks, j)
                inner = text[toks[j].end:toks[close].start].strip()
                m = re.match(r'cfg\s*\((.*)\)$', inner, re.S)
                if not m:
                    continue
                hit = (k, close, eval_cfg(m.group(1)))
                break
        if hit is None:
            break
        k, close, val = hit
        if val:
            text = text[:toks[k].start] + text[toks[close].end:]
            recs.append(dict(rule='N1', before='#[cfg] (true)', after=''))
            continue
        # false: delete the guarded element
        j = close + 1
        depth = 0
        end = None
        while j < len(toks):
            u = toks[j]
            if u.kind == 'punct':
                if u.text in OPEN:
                    cl = match_close(toks, j)
                    if u.text == '{' and depth == 0:
                        end = cl
                        # a following `,` or `;` belongs to it
                        n = cl + 1
                        while n < len(toks) and toks[n].kind == 'ws':
                            n += 1
                        if n < len(toks) and toks[n].text in (',', ';'):
                            end = n
                        break
                    j = cl + 1
                    continue
                if u.text in (',', ';'):
                    end = j
                    break
                if u.text in CLOSE:
                    end = j - 1
                    break
            j += 1
        if end is None:
            end = len(toks) - 1
        recs.append(dict(rule='N1', before='#[cfg] (false) ' + squash(text[toks[k].start:toks[end].end])[:60], after=''))
        text = text[:toks[k].start] + text[toks[end].end:]
    return text, recs


def n4c_map(text):
    """N4c: `X.map(|v| B)` -> `match X { Some(v) => Some(B), None => None }` (definitional unfolding of Option::map;
    applied where the closure captures `&mut`, which Verus rejects)."""
    recs = []
    while True:
        ft = FnText(text)
        toks = ft.toks
        hit = None
        for k in ft.c:
            t = toks[k]
            if t.kind == 'ident' and t.text == 'map' and toks[ft.prevc(k)].text == '.':
                po = ft.nextc(k)
                if toks[po].text != '(':
                    continue
                b = ft.nextc(po)
                if toks[b].text != '|':
                    continue
                v = ft.nextc(b)
                if toks[v].kind != 'ident' or toks[ft.nextc(v)].text != '|':
                    continue
                close = match_close(toks, po)
                body_txt = text[toks[ft.nextc(ft.nextc(v))].start:toks[close].start]
                if '&mut' not in body_txt:
                    continue
                body0 = ft.nextc(ft.nextc(v))
                dot = ft.prevc(k)
                j = dot - 1
                depth = 0
                start = None
                while j >= 0:
                    w = toks[j]
                    if w.kind == 'punct':
                        if w.text in CLOSE:
                            depth += 1
                        elif w.text in OPEN:
                            if depth == 0:
                                start = j + 1
                                break
                            depth -= 1
                        elif depth == 0 and w.text in ('=', ';', ',', '=>'):
                            start = j + 1
                            break
                    elif w.kind == 'ident' and depth == 0 and w.text in ('return', 'in', 'else'):
                        start = j + 1
                        break
                    j -= 1
                while toks[start].kind in ('ws', 'lcomment', 'bcomment', 'doc'):
                    start += 1
                hit = (start, dot, v, body0, close)
                break
        if hit is None:
            break
        start, dot, v, body0, close = hit
        name = toks[v].text
        edits = [(toks[start].start, toks[start].start, 'match '),
                 (toks[dot].start, toks[body0].start, ' { Some(%s) => Some(' % name),
                 (toks[close].start, toks[close].end, '), None => None }')]
        text = apply_edits(text, edits)
        recs.append(dict(rule='N4c', before='X.map(|%s| B) with B capturing &mut' % name, after='match X { Some(%s) => Some(B), None => None }' % name))
    return text, recs


def n16_add_assign(text):
    """N16: statement `LHS += RHS;` on a generic `T: AddAssign` -> `AddAssign::add_assign(&mut LHS, RHS);`
    (the language's own desugaring of the compound assignment operator)."""
    recs = []
    while True:
        ft = FnText(text)
        toks = ft.toks
        hit = None
        for k in ft.c:
            if ft.body_open is None or k <= ft.body_open:
                continue
            t = toks[k]
            if t.kind == 'punct' and t.text == '+=':
                # statement start: previous `;`, `{` or `}` at any depth going backwards (same nesting)
                j = k - 1
                depth = 0
                while j >= 0:
                    w = toks[j]
                    if w.kind == 'punct':
                        if w.text in CLOSE:
                            depth += 1
                        elif w.text in OPEN:
                            if depth == 0:
                                break
                            depth -= 1
                        elif w.text == ';' and depth == 0:
                            break
                    j -= 1
                start = j + 1
                while toks[start].kind in ('ws', 'lcomment', 'bcomment', 'doc'):
                    start += 1
                # `unsafe { *x += v }` : start may be `unsafe`? then the `{` search stopped at its brace already
                e = k + 1
                depth = 0
                while e < len(toks):
                    w = toks[e]
                    if w.kind == 'punct':
                        if w.text in OPEN:
                            depth += 1
                        elif w.text in CLOSE:
                            if depth == 0:
                                break
                            depth -= 1
                        elif w.text == ';' and depth == 0:
                            break
                    e += 1
                last = e - 1
                while toks[last].kind in ('ws', 'lcomment', 'bcomment', 'doc'):
                    last -= 1
                lhs_end = k - 1
                while toks[lhs_end].kind in ('ws', 'lcomment', 'bcomment', 'doc'):
                    lhs_end -= 1
                hit = (start, lhs_end, k, last)
                break
        if hit is None:
            break
        start, lhs_end, k, last = hit
        lhs = text[toks[start].start:toks[lhs_end].end]
        rhs = text[toks[k].end:toks[last].end].strip()
        new = 'AddAssign::add_assign(&mut %s, %s)' % (lhs, rhs)
        text = text[:toks[start].start] + new + text[toks[last].end:]
        recs.append(dict(rule='N16', before='%s += %s' % (squash(lhs), squash(rhs)[:30]), after='AddAssign::add_assign(&mut .., ..)'))
    return text, recs


def n18_continue(text):
    """N18: inside a loop body, `if C { S; continue; } REST` (an `if` without `else` whose block ends in `continue;`)
    -> `if C { S } else { REST }`. Verus for-loops do not support `continue`; the two forms are equivalent."""
    recs = []
    for _ in range(8):
        ft = FnText(text)
        if ft.body_open is None:
            break
        toks = ft.toks
        done = True
        for (kw, ob, cb) in find_loops(ft):
            stmts = split_stmts(ft, ob, cb)
            for si, st in enumerate(stmts):
                if toks[st[0]].text != 'if':
                    continue
                # the if's block: first '{' at depth 0 of the statement; no else
                k = st[0]
                depth = 0
                blk = None
                while k <= st[1]:
                    t = toks[k]
                    if t.kind == 'punct':
                        if t.text in '([':
                            depth += 1
                        elif t.text in ')]':
                            depth -= 1
                        elif t.text == '{' and depth == 0:
                            blk = k
                            break
                    k += 1
                if blk is None:
                    continue
                bclose = match_close(toks, blk)
                if bclose != st[1] and not (toks[st[1]].text == ';' and ft.prevc(st[1]) == bclose):
                    continue  # has an else or is part of a larger expression
                inner = split_stmts(ft, blk, bclose)
                if not inner:
                    continue
                last = inner[-1]
                if squash(stmt_text(ft, last)) not in ('continue;', 'continue'):
                    continue
                rest_start = toks[st[1]].end
                rest_end = toks[cb].start
                rest = text[rest_start:rest_end]
                new = (text[:toks[last[0]].start] + text[toks[last[1]].end:toks[bclose].end] + ' else {' + rest + '}\n' + text[rest_end:])
                text = new
                recs.append(dict(rule='N18', before='if C { ..; continue; } REST', after='if C { .. } else { REST }'))
                done = False
                break
            if not done:
                break
        if done:
            break
    return text, recs


def _receiver_start(ft, dot):
    """start token index of the postfix-expression receiver that ends right before the '.' at token index `dot`"""
    toks = ft.toks
    j = dot - 1
    depth = 0
    start = 0
    while j >= 0:
        w = toks[j]
        if w.kind == 'punct':
            if w.text in CLOSE:
                depth += 1
            elif w.text in OPEN:
                if depth == 0:
                    start = j + 1
                    break
                depth -= 1
            elif depth == 0 and w.text in ('=', ';', ',', '=>', '==', '&&', '||'):
                start = j + 1
                break
        elif w.kind == 'ident' and depth == 0 and w.text in ('return', 'in', 'else'):
            start = j + 1
            break
        j -= 1
    while toks[start].kind in ('ws', 'lcomment', 'bcomment', 'doc'):
        start += 1
    return start


def n4d_then_filter(text):
    """N4d: `C.then(|| B)` -> `(if C { Some(B) } else { None })` (bool::then);
    N4e: `X.filter(|p| P)` -> `(match X { Some(v__) => if { let p = &v__; P } { Some(v__) } else { None }, None => None })`
    (Option::filter; `|_| P` needs no binding). Definitional unfoldings, applied where the closure literal captures
    `&mut`/`self` state that Verus closures cannot (zero-argument `then`, one-argument `filter` closure literals only)."""
    recs = []
    while True:
        ft = FnText(text)
        toks = ft.toks
        hit = None
        for k in ft.c:
            t = toks[k]
            if t.kind != 'ident' or t.text not in ('then', 'filter') or toks[ft.prevc(k)].text != '.':
                continue
            po = ft.nextc(k)
            if toks[po].text != '(':
                continue
            close = match_close(toks, po)
            b = ft.nextc(po)
            if t.text == 'then':
                if toks[b].text != '||':
                    continue
                body0 = ft.nextc(b)
                hit = ('then', _receiver_start(ft, ft.prevc(k)), ft.prevc(k), None, body0, close)
                break
            else:
                if toks[b].text != '|':
                    continue
                v = ft.nextc(b)
                if toks[v].kind != 'ident' or toks[ft.nextc(v)].text != '|':
                    continue
                # type-unaware rewriting: only where the receiver is known to be an Option, i.e. the result of an N4d unfolding
                body0 = ft.nextc(ft.nextc(v))
                rs = _receiver_start(ft, ft.prevc(k))
                if not text[toks[rs].start:].startswith('(if '):
                    continue
                hit = ('filter', rs, ft.prevc(k), toks[v].text, body0, close)
                break
        if hit is None:
            break
        kind, start, dot, name, body0, close = hit
        if kind == 'then':
            edits = [(toks[start].start, toks[start].start, '(if '),
                     (toks[dot].start, toks[body0].start, ' { Some('),
                     (toks[close].start, toks[close].end, ') } else { None })')]
            recs.append(dict(rule='N4d', before='C.then(|| B)', after='(if C { Some(B) } else { None })'))
        else:
            bind = '' if name == '_' else 'let %s = &v__; ' % name
            edits = [(toks[start].start, toks[start].start, '(match '),
                     (toks[dot].start, toks[body0].start, ' { Some(v__) => if { %s' % bind),
                     (toks[close].start, toks[close].end, ' } { Some(v__) } else { None }, None => None })')]
            recs.append(dict(rule='N4e', before='X.filter(|%s| P)' % name, after='(match X { Some(v__) => if P { Some(v__) } else { None }, None => None })'))
        text = apply_edits(text, edits)
    return text, recs


def n21_rename_has(text):
    """N21: an identifier `has` (parameter of UnprotectedStorage::clean) -> `has_`: in this Verus `has` is an infix operator
    keyword of the verus! macro (`!has.contains(i)` does not parse). Alpha-renaming of a local."""
    toks = lex(text)
    c = code(toks)
    edits = []
    for n, k in enumerate(c):
        t = toks[k]
        if t.kind == 'ident' and t.text == 'has':
            prev = toks[c[n - 1]].text if n > 0 else ''
            nxt = toks[c[n + 1]].text if n + 1 < len(c) else ''
            if prev in ('.', '::') or nxt == '(':
                continue
            edits.append((t.start, t.end, 'has_'))
    if not edits:
        return text, []
    return apply_edits(text, edits), [dict(rule='N21', before='identifier `has`', after='`has_` (%d occurrence(s))' % len(edits))]


def n22_while_let(text):
    """N22: `while let PAT = EXPR { BODY }` -> `loop { match EXPR { PAT => { BODY } _ => { break; } } }` — the definition of
    `while let` (Verus keeps no information about the failed match at the exit of a `while let`, so the exit condition could not be used)."""
    recs = []
    while True:
        ft = FnText(text)
        toks = ft.toks
        hit = None
        for n, k in enumerate(ft.c):
            t = toks[k]
            if t.kind == 'ident' and t.text == 'while' and ft.body_open is not None and ft.body_open < k < ft.body_close:
                l = ft.nextc(k)
                if toks[l].kind == 'ident' and toks[l].text == 'let':
                    # `=` at depth 0 after the pattern
                    depth = 0
                    j = l + 1
                    eq = None
                    while j < ft.body_close:
                        u = toks[j]
                        if u.kind == 'punct':
                            if u.text in OPEN:
                                depth += 1
                            elif u.text in CLOSE:
                                depth -= 1
                            elif u.text == '=' and depth == 0:
                                eq = j
                                break
                        j += 1
                    if eq is None:
                        continue
                    depth = 0
                    j = eq + 1
                    ob = None
                    while j < ft.body_close:
                        u = toks[j]
                        if u.kind == 'punct':
                            if u.text in '([':
                                depth += 1
                            elif u.text in ')]':
                                depth -= 1
                            elif u.text == '{' and depth == 0:
                                ob = j
                                break
                        j += 1
                    if ob is None:
                        continue
                    hit = (k, l, eq, ob, match_close(toks, ob))
                    break
        if hit is None:
            break
        k, l, eq, ob, cb = hit
        pat = text[toks[l].end:toks[eq].start].strip()
        expr = text[toks[eq].end:toks[ob].start].strip()
        body = text[toks[ob].start:toks[cb].end]
        new = 'loop {\n            match %s {\n                %s => %s\n                _ => { break; }\n            }\n        }' % (expr, pat, body)
        text = text[:toks[k].start] + new + text[toks[cb].end:]
        recs.append(dict(rule='N22', before='while let %s = .. { .. }' % pat, after='loop { match .. { %s => { .. } _ => { break; } } }' % pat))
    return text, recs


def n25_brace_arms(text):
    """N25: a match arm whose body is a bare expression, `PAT => EXPR,`, becomes `PAT => { EXPR }` (so that ghost text can be
    placed before / after a statement that is an arm body). Pure syntax."""
    recs = []
    for _ in range(200):
        ft = FnText(text)
        if ft.body_open is None:
            break
        toks = ft.toks
        hit = None
        for k in ft.c:
            if k <= ft.body_open or k >= ft.body_close:
                continue
            t = toks[k]
            if t.kind == 'punct' and t.text == '=>':
                n = ft.nextc(k)
                if toks[n].text == '{':
                    continue
                # `unsafe { .. }` / `match .. { }` / `if .. { }` bodies still need braces when followed by more tokens: wrap uniformly
                depth = 0
                j = n
                end = None
                while j < ft.body_close:
                    u = toks[j]
                    if u.kind == 'punct':
                        if u.text in OPEN:
                            j = match_close(toks, j)
                        elif u.text in CLOSE:
                            end = j
                            break
                        elif u.text == ',':
                            end = j
                            break
                    j += 1
                if end is None:
                    continue
                # last code token before `end`
                last = end - 1
                while toks[last].kind in ('ws', 'lcomment', 'bcomment', 'doc'):
                    last -= 1
                hit = (n, last)
                break
        if hit is None:
            break
        n, last = hit
        text = text[:toks[n].start] + '{ ' + text[toks[n].start:toks[last].end] + ' }' + text[toks[last].end:]
        recs.append(dict(rule='N25', before='PAT => EXPR', after='PAT => { EXPR }'))
    return text, recs
