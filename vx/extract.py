"""Locate Rust items in /repo sources by path and return their exact byte spans.

A path is a list of header prefixes, e.g.
    ["impl Allocator", "fn kill"]
    ["impl<'a> Join for &'a EntitiesRes", "fn get"]
    ["struct EntityCache"]
Matching is whitespace-insensitive on the item header with leading
visibility / `unsafe` / `default` removed; the element must be followed by a
non-identifier character in the header (so "fn get" does not match "fn get_mut").
Items under #[cfg(test)] (or any cfg false for the configured feature set) are skipped.
"""
import hashlib
import re
from .lexer import lex, code, match_close, squash

FEATURES = {'parallel'}


class LostAnchor(Exception):
    pass


class Item:
    def __init__(self, file, src, toks, a0, h0, h1, e1, parent):
        # token indices: a0 = first attr/doc token, h0 = first header token,
        # h1 = index of '{' or ';' that ends the header, e1 = last token of item
        self.file, self.src, self.toks = file, src, toks
        self.a0, self.h0, self.h1, self.e1 = a0, h0, h1, e1
        self.parent = parent

    @property
    def start(self):
        return self.toks[self.a0].start

    @property
    def end(self):
        return self.toks[self.e1].end

    @property
    def text(self):
        return self.src[self.toks[self.h0].start:self.end]

    @property
    def header(self):
        return self.src[self.toks[self.h0].start:self.toks[self.h1].start]

    @property
    def attrs(self):
        return self.src[self.start:self.toks[self.h0].start]

    @property
    def attr_code(self):
        """attributes only (doc comments and comments excluded)"""
        return ''.join(t.text for t in self.toks[self.a0:self.h0] if t.kind not in ('doc', 'lcomment', 'bcomment'))

    @property
    def has_body(self):
        return self.toks[self.h1].text == '{'

    @property
    def body(self):
        return self.src[self.toks[self.h1].start:self.end]

    @property
    def lines(self):
        l0 = self.src.count('\n', 0, self.toks[self.h0].start) + 1
        l1 = self.src.count('\n', 0, self.end) + 1
        return (l0, l1)

    @property
    def sha256(self):
        return hashlib.sha256(self.text.encode()).hexdigest()

    def kind(self):
        h = strip_vis(self.header)
        m = re.match(r'(fn|struct|enum|impl|trait|mod|type|const|static|use|union|macro_rules)\b', h)
        return m.group(1) if m else 'other'


_vis = re.compile(r'^(pub\s*(\([^)]*\))?\s*|unsafe\s+|default\s+|async\s+|const\s+(?=fn|unsafe)|extern\s+"[^"]*"\s*)+')


def strip_vis(h):
    h = h.lstrip()
    return _vis.sub('', h)


def _eval_cfg(expr):
    expr = expr.strip()
    m = re.match(r'^(\w+)\s*\((.*)\)$', expr, re.S)
    if m and m.group(1) in ('not', 'all', 'any'):
        parts = _split_commas(m.group(2))
        vals = [_eval_cfg(p) for p in parts if p.strip()]
        if m.group(1) == 'not':
            return not vals[0]
        return all(vals) if m.group(1) == 'all' else any(vals)
    m = re.match(r'^feature\s*=\s*"([^"]*)"$', expr)
    if m:
        return m.group(1) in FEATURES
    if expr == 'test':
        return False
    if expr in ('debug_assertions',):
        return True
    return True


def _split_commas(s):
    out, depth, cur = [], 0, ''
    for ch in s:
        if ch in '([':
            depth += 1
        elif ch in ')]':
            depth -= 1
        if ch == ',' and depth == 0:
            out.append(cur)
            cur = ''
        else:
            cur += ch
    out.append(cur)
    return out


def cfg_enabled(attrs_text):
    for m in re.finditer(r'#\s*\[\s*cfg\s*\((.*?)\)\s*\]', attrs_text, re.S):
        if not _eval_cfg(m.group(1)):
            return False
    return True


def iter_items(file, src, toks, lo, hi, parent=None):
    """yield Items among toks[lo:hi] (one nesting level)."""
    k = lo
    while k < hi:
        t = toks[k]
        if t.kind in ('ws', 'lcomment', 'bcomment'):
            k += 1
            continue
        a0 = k
        # attrs and docs
        while k < hi:
            t = toks[k]
            if t.kind in ('ws', 'lcomment', 'bcomment', 'doc'):
                k += 1
            elif t.text == '#':
                j = k + 1
                while toks[j].kind == 'ws' or toks[j].text == '!':
                    j += 1
                if toks[j].text != '[':
                    break
                k = match_close(toks, j) + 1
            else:
                break
        if k >= hi:
            break
        h0 = k
        # header: up to '{' or ';' at ()[] depth 0
        first_words = []
        j = k
        depth = 0
        is_use = False
        while j < hi:
            t = toks[j]
            if t.kind == 'ident' and len(first_words) < 6:
                first_words.append(t.text)
            if t.kind == 'punct':
                if t.text in '([':
                    depth += 1
                elif t.text in ')]':
                    depth -= 1
                elif t.text == ';' and depth == 0:
                    break
                elif t.text == '{' and depth == 0:
                    kw = [w for w in first_words if w not in ('pub', 'crate', 'super', 'self', 'in', 'unsafe', 'default')]
                    if kw and kw[0] in ('use', 'type', 'const', 'static', 'extern') and not (len(kw) > 1 and kw[0] == 'const' and kw[1] in ('fn', 'unsafe')) and not (kw[0] == 'extern' and 'fn' in kw):
                        # braces inside a ;-terminated item
                        j = match_close(toks, j)
                    else:
                        break
            j += 1
        if j >= hi:
            break
        h1 = j
        if toks[h1].text == '{':
            e1 = match_close(toks, h1)
        else:
            e1 = h1
        # macro invocation with (...) ; e.g. foo!(..);  handled: header ends at ';'
        yield Item(file, src, toks, a0, h0, h1, e1, parent)
        k = e1 + 1


EXPANDED = '@expanded'      # pseudo file: the crate after macro expansion by rustc itself (run on a scratch copy)
_expanded_cache = {}


def expanded_text(root):
    """`cargo +nightly rustc --lib --no-default-features -- -Zunpretty=expanded` on a scratch copy of root (cached per process)."""
    import os, shutil, subprocess, tempfile
    feats = sorted(f for f in FEATURES if f in ('parallel', 'serde'))
    ck = (root, tuple(feats))
    if ck in _expanded_cache:
        return _expanded_cache[ck]
    d = tempfile.mkdtemp(prefix='specs-verif.expand.', dir='/var/tmp')
    try:
        for name in ('src', 'Cargo.toml', 'Cargo.lock', 'specs-derive'):
            src = os.path.join(root, name)
            if os.path.isdir(src):
                shutil.copytree(src, os.path.join(d, name))
            elif os.path.exists(src):
                shutil.copy(src, os.path.join(d, name))
        # examples/benches/tests are not copied: drop their manifest sections
        toml = open(os.path.join(d, 'Cargo.toml')).read()
        out, keep = [], True
        for line in toml.splitlines():
            m = re.match(r'^\[+([^\]]+)\]+', line)
            if m:
                sec = m.group(1).strip()
                keep = sec in ('package', 'dependencies', 'features') or sec.startswith('package.')
            if keep:
                out.append(line)
        open(os.path.join(d, 'Cargo.toml'), 'w').write('\n'.join(out).replace('autobenches = false', 'autobenches = false\nautoexamples = false\nautotests = false') + '\n')
        env = dict(os.environ, CARGO_NET_OFFLINE='true', CARGO_TARGET_DIR=os.path.join(d, 'target'))
        p = subprocess.run(['cargo', '+nightly', 'rustc', '--offline', '--lib', '--no-default-features'] + (['--features', ','.join(feats)] if feats else []) + ['--', '-Zunpretty=expanded'],
                           cwd=d, env=env, capture_output=True, text=True, timeout=1200)
        if p.returncode != 0 or 'mod join' not in p.stdout:
            raise LostAnchor('macro expansion by rustc failed: ' + p.stderr[-400:])
        _expanded_cache[ck] = p.stdout
        return p.stdout
    finally:
        shutil.rmtree(d, ignore_errors=True)


class Source:
    _cache = {}

    def __init__(self, root, file):
        self.file = file
        if file == EXPANDED:
            self.src = expanded_text(root)
        else:
            with open(root + '/' + file, encoding='utf-8') as f:
                self.src = f.read()
        self.toks = lex(self.src)

    @classmethod
    def get(cls, root, file):
        key = (root, file)
        if key not in cls._cache:
            cls._cache[key] = Source(root, file)
        return cls._cache[key]


def _matches(item, elem):
    h = squash(strip_vis(item.header))
    e = squash(elem)
    if not h.startswith(e):
        return False
    rest = h[len(e):]
    if rest and (rest[0].isalnum() or rest[0] == '_') and (e[-1].isalnum() or e[-1] == '_') and not re.match(r'where(\W|$)', rest):
        return False
    return True


def find_all(root, file, path):
    s = Source.get(root, file)
    cands = [None]
    ranges = [(0, len(s.toks), None)]
    for depth, elem in enumerate(path):
        nxt = []
        for (lo, hi, parent) in ranges:
            for it in iter_items(s.file, s.src, s.toks, lo, hi, parent):
                if not cfg_enabled(it.attr_code):
                    continue
                if _matches(it, elem):
                    nxt.append(it)
        if depth == len(path) - 1:
            return nxt
        ranges = [(it.h1 + 1, it.e1, it) for it in nxt if it.has_body]
    return []


def find_item(root, file, path, nth=None):
    found = find_all(root, file, path)
    if not found:
        raise LostAnchor('item not found: %s :: %s' % (file, ' :: '.join(path)))
    if nth is not None:
        if nth >= len(found):
            raise LostAnchor('item #%d not found: %s :: %s' % (nth, file, ' :: '.join(path)))
        return found[nth]
    if len(found) > 1:
        raise LostAnchor('ambiguous item (%d matches): %s :: %s' % (len(found), file, ' :: '.join(path)))
    return found[0]


def list_fns(root, file):
    """all fn items (any nesting through impl/trait/mod) for the 'not under contract' report"""
    s = Source.get(root, file)
    out = []

    def walk(lo, hi, parent, prefix):
        for it in iter_items(s.file, s.src, s.toks, lo, hi, parent):
            if not cfg_enabled(it.attr_code):
                continue
            k = it.kind()
            hdr = ' '.join(strip_vis(it.header).split())
            if k == 'fn':
                m = re.match(r'fn\s+(\w+)', hdr)
                out.append((prefix + ['fn ' + (m.group(1) if m else '?')], it))
            elif k in ('impl', 'trait', 'mod') and it.has_body:
                walk(it.h1 + 1, it.e1, it, prefix + [hdr])
    walk(0, len(s.toks), None, [])
    return out
