"""./check <Cxx> [--tier quick|thorough] [--replay FILE] [--repo DIR]

exit 0: every obligation tagged with the property is discharged on the current tree
exit 1: a baseline obligation fails with a semantic verdict  -> VIOLATION line
exit 2: undecided (lost anchor, unsupported construct, tool error, resource limit)
"""
import hashlib
import json
import os
import re
import shutil
import subprocess
import sys
import tempfile
import time

from .dev import load_unit
from .unit import generate, not_under_contract
from .runner import run_verus, parse, SCRATCH_ROOT
from .props import PROPS, COMMON_ASSUMPTIONS

ROOT = os.path.dirname(os.path.dirname(os.path.abspath(__file__)))
# dev runs against scratch copies (seeded/benign_try.sh) redirect their evidence so that /verif/evidence always describes /repo
EVID = os.environ.get('VERIF_EVIDENCE_DIR') or os.path.join(ROOT, 'evidence')


def load_json(p, default):
    try:
        with open(p) as f:
            return json.load(f)
    except Exception:
        return default


def verify_unit(name, repo, vacuity=False, drop_asserts=None):
    u = load_unit(name)
    g = generate(u, repo, vacuity=vacuity, drop_asserts=drop_asserts)
    res = run_verus(g.text, name)
    out = parse(res, g, name)
    attempts = 1
    # ISOLATION: when rustc/Verus REJECT the generated file and every rejection lies inside extracted functions (constructs outside
    # the subset, annotations that no longer fit the code), those functions are re-emitted as contract-only stubs and the unit is
    # verified again: only their obligations are undecided, the rest of the unit keeps its verdict
    rounds = 0
    while out['status'] == 'error' and out.get('hard_fns') and None not in out['hard_fns'] and rounds < 3:
        bad = set(out['hard_fns']) | set(g.stubbed)
        g = generate(u, repo, vacuity=vacuity, stub_fns=bad, drop_asserts=drop_asserts)
        for k in bad:
            if not any(l.startswith(k + ': ') for l in g.lost):
                g.lost.append('%s: rejected by the verifier front end' % k)
        res = run_verus(g.text, name)
        out = parse(res, g, name)
        rounds += 1
    if out['status'] == 'rlimit':
        res = run_verus(g.text, name, rlimit=40)
        out = parse(res, g, name)
        attempts = 2
    elif out['status'] == 'failed':
        # second attempt with 4x rlimit: only failures that persist are reported
        res2 = run_verus(g.text, name, rlimit=40)
        out2 = parse(res2, g, name)
        attempts = 2
        if out2['status'] in ('ok', 'failed'):
            res, out = res2, out2
    return u, g, res, out, attempts


def build_witness(kind, repo):
    """build the witness finder against the current repo in a scratch dir; returns (dir, binary) or (dir, None)"""
    d = tempfile.mkdtemp(prefix='specs-verif.replay.', dir=SCRATCH_ROOT)
    src = os.path.join(ROOT, 'replay', kind)
    dst = os.path.join(d, kind)
    shutil.copytree(src, dst)
    toml = open(os.path.join(dst, 'Cargo.toml')).read().replace('path = "/repo"', 'path = "%s"' % repo)
    open(os.path.join(dst, 'Cargo.toml'), 'w').write(toml)
    lock = os.path.join(repo, 'Cargo.lock')
    if os.path.exists(lock):
        shutil.copy(lock, os.path.join(dst, 'Cargo.lock'))
    env = dict(os.environ, CARGO_NET_OFFLINE='true', CARGO_TARGET_DIR=os.path.join(d, 'target'))
    p = subprocess.run(['cargo', 'build', '--release', '--offline', '-q'], cwd=dst, env=env, capture_output=True, text=True)
    binp = os.path.join(d, 'target', 'release', 'replay-' + kind)
    if p.returncode != 0 or not os.path.exists(binp):
        return d, None, p.stderr[-2000:]
    return d, binp, ''


def find_witness(kind, prop, repo, depth, seed):
    d, binp, err = build_witness(kind, repo)
    try:
        if binp is None:
            return dict(found=False, error='witness finder did not build: ' + err)
        try:
            p = subprocess.run([binp, 'search', prop, str(depth), str(seed)], capture_output=True, text=True, timeout=1500)
            return json.loads(p.stdout.strip().splitlines()[-1])
        except Exception as e:
            return dict(found=False, error='witness search failed: %s' % e)
    finally:
        shutil.rmtree(d, ignore_errors=True)


KANI_BOUNDS = {
    'kdense_small': 'DenseVecStorage<u16>: every well-formed state with <= 2 elements over indices < 3; one insert or remove; then every slot re-read and the dense invariant re-checked',
    'kdense_step': 'DenseVecStorage<u16>: every well-formed state with <= 3 elements over indices < 4; one arbitrary raw operation (insert/remove/get_mut/get); whole-view re-read + dense invariant + dense slice is a permutation',
    'kdense_clean': 'DenseVecStorage<u16>: every well-formed state with <= 3 elements over indices < 4; clean() empties all three tables',
    'kvec_small': 'VecStorage<u16>: every vector of length <= 2 with any occupied subset; one insert or remove over indices < 3 (may grow the vector); every slot re-read; then clean(true mask)',
    'kdefault_small': 'DefaultVecStorage<u16>: every vector of length <= 2 whose unoccupied slots hold Default; one insert or remove over indices < 3; occupied = value, unoccupied = Default; then clean()',
    'kvec_step': 'VecStorage<u16>: every vector of length <= 4 with any occupied subset; one arbitrary raw operation; slice view agrees at occupied indices; then clean()',
    'kdefault_step': 'DefaultVecStorage<u16>: every vector of length <= 4 whose unoccupied slots hold Default; one arbitrary raw operation; occupied = value, unoccupied = Default; then clean()',
    'own_vec': 'VecStorage<Tok> destructor ledger: <= 2 symbolic inserts over indices < 3, one arbitrary operation (insert/remove/drop/overwrite), clean(true mask), drop: each token dropped xor handed back exactly once',
    'own_dense': 'DenseVecStorage<Tok> destructor ledger: same scenario as own_vec',
    'own_null': 'NullStorage<Z> (zero-sized, counting destructor): 3 arbitrary operations over indices < 3, clean(true mask): destructor runs + handed back == inserted',
    'own_drain': 'MaskedStorage<Tok> with VecStorage and the REAL hibitset BitSet: <= 2 components, Drain join opened, a symbolic subset fetched, storage dropped: ledger balanced',
}


def run_kani(cfg_k, tier, repo):
    """bounded stand-in: returns list of dict(harness, status in ok|failed|undecided, detail, time_s, checks)"""
    hs = list(cfg_k.get('quick', [])) + (list(cfg_k.get('thorough', [])) if tier == 'thorough' else [])
    if not hs:
        return [], ''
    files = ':'.join(os.path.join(ROOT, 'kani', f) for f in cfg_k['files'])
    out = tempfile.mkdtemp(prefix='specs-verif.kaniout.', dir=SCRATCH_ROOT)
    cmd = [os.path.join(ROOT, 'kani', 'run_kani.sh'), repo, files, out, str(cfg_k.get('timeout', 2400))] + hs
    res = []
    try:
        subprocess.run(cmd, capture_output=True, text=True)
        for h in hs:
            try:
                log = open(os.path.join(out, h + '.log'), errors='replace').read()
            except Exception:
                log = ''
            m = re.search(r'\*\* (\d+) of (\d+) failed', log)
            t = re.search(r'Verification Time: ([0-9.]+)s', log)
            rec = dict(harness=h, bound=KANI_BOUNDS.get(h, ''), checks=int(m.group(2)) if m else 0,
                       time_s=float(t.group(1)) if t else None)
            if 'VERIFICATION:- SUCCESSFUL' in log:
                rec['status'] = 'ok'
            elif 'VERIFICATION:- FAILED' in log and m and int(m.group(1)) > 0 and 'out of memory' not in log:
                rec['status'] = 'failed'
                fc = re.findall(r'Failed Checks: ([^\n]*)', log)
                descr = re.findall(r'(Check \d+: [^\n]*\n\s*- Status: FAILURE\n\s*- Description: [^\n]*\n\s*- Location: [^\n]*)', log)
                rec['detail'] = '\n'.join(fc[:10]) + '\n' + '\n'.join(descr[:6])
            else:
                rec['status'] = 'undecided'
                rec['detail'] = log[-1500:]
            res.append(rec)
    finally:
        shutil.rmtree(out, ignore_errors=True)
    return res, ' '.join(cmd[:2]) + ' <scratch copy of repo> ... ' + ' '.join(hs) + '   # cargo kani --no-default-features -Z function-contracts -Z stubbing --harness <h>'


def replay_file(path, repo):
    r = load_json(path, None)
    if r is None:
        print('cannot read replay file', path)
        return 2
    print('replay: property=%s obligation=%s' % (r.get('property'), r.get('obligation')))
    print(r.get('verifier_message', ''))
    w = r.get('witness')
    if not w or not w.get('found'):
        print('no concrete failing input recorded (no-failing-input-found); re-run the check to re-verify the obligation')
        return 0
    d, binp, err = build_witness(r.get('witness_kind', 'alloc'), repo)
    try:
        if binp is None:
            print('witness harness did not build:', err)
            return 2
        args = [binp, 'run', w.get('property', r.get('property'))] + ([w['kind']] if w.get('kind') else []) + [json.dumps(w['history'])]
        p = subprocess.run(args, capture_output=True, text=True)
        print(p.stdout.strip())
        return 1 if p.returncode == 1 else 0
    finally:
        shutil.rmtree(d, ignore_errors=True)


def main(argv):
    if len(argv) < 2:
        print(__doc__)
        return 2
    prop = argv[1]
    tier = os.environ.get('VERIF_TIER', 'quick')
    repo = '/repo'
    if '--tier' in argv:
        tier = argv[argv.index('--tier') + 1]
    if '--repo' in argv:
        repo = argv[argv.index('--repo') + 1]
    if '--replay' in argv:
        return replay_file(argv[argv.index('--replay') + 1], repo)
    seed = int(os.environ.get('VERIF_SEED', '0') or 0)
    if prop not in PROPS:
        print('property %s is not claimed (see MANIFEST.json not_applicable)' % prop)
        return 2
    cfg = PROPS[prop]
    t0 = time.time()
    os.makedirs(os.path.join(EVID, 'replay'), exist_ok=True)
    baseline = load_json(os.path.join(ROOT, 'baseline_obligations.json'), {})
    known = load_json(os.path.join(ROOT, 'known_findings.json'), {'findings': [], 'fixed': []})

    undecided, violations, known_hits = [], [], []
    notes = []
    tainted = []   # obligations of this property inside a function that failed a DIFFERENT (not tagged) obligation
    obligations, discharged = {}, {}
    cov_items, cov_norms, trusted, not_covered, samples = [], [], [], [], []
    cmds, smt_ms, fn_ms = [], 0.0, {}
    vac = None
    unit_gens = []
    for uname in cfg['units']:
        u, g, res, out, attempts = verify_unit(uname, repo)
        # a failed labelled ASSERTION that belongs to another property would be assumed by Verus for the rest of that function
        # (tainting this property's obligations there): verify once more without those assertions
        also0 = [re.compile(x) for x in cfg.get('also', [])]
        foreign = []
        for ob in out['failed']:
            o_ = g.obligations.get(ob)
            if o_ and o_['kind'] == 'assertion in proof hint' and '::hint.trait.' not in ob and not (prop in o_['props'] or any(r.search(ob) for r in also0)):
                foreign.append((o_['fn'], ob.rsplit('::', 1)[1]))
        if foreign:
            u, g, res, out, attempts = verify_unit(uname, repo, drop_asserts=foreign)
            notes.append('re-verified without failing assertions of other properties: %s' % sorted(set(foreign)))
        cmds.append(res['cmd'] + '   # on the file generated from %s by vx (unit %s), %d attempt(s)' % (repo, uname, attempts))
        smt_ms += out.get('smt_ms', 0)
        for k, v in out.get('times', {}).items():
            fn_ms[k] = round(v, 1)
        unit_gens.append((uname, g))
        lost_notes = list(g.lost)
        for c in g.cheats_outside_prelude:
            undecided.append('assumption outside the prelude: ' + c)
        trusted += g.trusted
        if out['status'] in ('error', 'rlimit'):
            undecided += out['undecided']
        rl_fns = set(out.get('rlimit_fns', []))
        if None in rl_fns:
            rl_fns = None   # a resource limit that cannot be attributed: everything of this unit is undecided
        also = [re.compile(x) for x in cfg.get('also', [])]
        mine = {k: v for k, v in g.obligations.items() if prop in v['props'] or any(r.search(k) for r in also)}
        base = set(baseline.get(prop, {}).get(uname, []))
        for b in base:
            if b not in mine:
                undecided.append('baseline obligation no longer generated: ' + b)
        # a function with ANY failed obligation was verified under assumptions Verus could not discharge (it continues past a
        # failed precondition/assertion by assuming it): its remaining obligations are not proved, only not-refuted
        failed_fns = {}
        for ob, diags in out['failed'].items():
            if ob not in g.obligations:
                # never ignore a failure silently: a diagnostic that maps to no registered obligation leaves the run undecided
                undecided.append('verifier failure that maps to no registered obligation: %s: %s' % (ob, (diags[0].get('message') if diags else '')))
            fnk = g.obligations.get(ob, {}).get('fn')
            if fnk:
                failed_fns.setdefault(fnk, []).append((ob, diags))
        # lost anchors / isolated functions: undecided only for properties that have obligations in those functions
        for l in lost_notes:
            fnk = l.split(': ', 1)[0]
            if fnk in g.stubbed:
                if any(v['fn'] == fnk for v in mine.values()):
                    undecided.append('isolated function (its obligations are undecided): ' + l)
                else:
                    notes.append('isolated (not part of this property): ' + l)
            else:
                undecided.append('lost anchor: ' + l)
        for k, v in mine.items():
            obligations[k] = v
            if k in getattr(g, 'review', ()):
                if 'anchor statement is gone' in v.get('kind', ''):
                    undecided.append('isolated function (the statement this labelled assertion is attached to is gone, the assertion cannot be placed): %s — %s' % (k, v.get('expr', '')))
                else:
                    undecided.append('isolated function (an optional item is present whose effect on this property no contract here can decide): %s — %s' % (k, v.get('expr', '')))
                continue
            if v['fn'] in g.stubbed:
                continue
            if k in out['failed']:
                pass
            elif v['fn'] in failed_fns:
                tainted.append((uname, k, v['fn'], failed_fns[v['fn']], g))
            elif out['status'] in ('ok', 'failed') or (out['status'] == 'rlimit' and rl_fns is not None and v['fn'] not in rl_fns):
                discharged[k] = v
        # a semantic failure of one function stands even if ANOTHER function (or lemma) ran into the resource limit:
        # lemmas are only ever assumed at their call sites, so an unproved lemma cannot cause a refutation elsewhere
        if out['status'] in ('ok', 'failed') or (out['status'] == 'rlimit' and rl_fns is not None):
            for ob, diags in out['failed'].items():
                if ob in mine and (rl_fns is None or g.obligations[ob]['fn'] not in rl_fns):
                    violations.append((uname, ob, diags, g))
        for it in g.items:
            if it['kind'] == 'fn':
                cov_items.append(dict(function=it['key'], file=it['file'], lines=list(it['lines']), sha256=it['sha256'][:16]))
            for n in it['norms']:
                cov_norms.append('%s: %s' % (it['key'], n['rule']))
        not_covered += not_under_contract(u, repo)
        if tier == 'thorough' and out['status'] == 'ok':
            # vacuity guard: `assert(false)` at the start of every contracted body must FAIL
            g2 = generate(u, repo, vacuity=True)
            res2 = run_verus(g2.text, uname + '_vac')
            out2 = parse(res2, g2, uname)
            fns = [it['key'] for it in g2.items if it['kind'] == 'fn']
            reached = set()
            for ob in out2['failed']:
                m = re.match(r'[^:]+::(.*)::vacuity$', ob)
                if m:
                    reached.add(m.group(1))
            vacuous = [f for f in fns if f not in reached]
            vac = vac or dict(note='thorough tier: (1) assert(false) at the start of every contracted body must fail; (2) clause refutation: for every '
                                   'function carrying an obligation of this property, each postcondition / invariant clause conjoined with `false` must come '
                                   'back as a failed obligation under its registered name (one function at a time). `incomplete` lists targets where some clause was '
                                   'not refuted: wrappers whose body calls the same falsified trait method, or a second loop after a falsified first one '
                                   '(expected confounds), reported for information', units={})
            vac['units'][uname] = dict(functions=len(fns), reachable=len(reached), vacuous=vacuous)
            if vacuous:
                undecided.append('vacuous precondition (assert(false) verified at body start): %s' % vacuous)
            try:
                from .selftest import run_selftest
                my_fns = {v['fn'] for v in mine.values()}
                st = run_selftest(uname, repo, jobs=10, only_fns=my_fns)
                vac['units'][uname]['clause_refutation'] = dict(targets=st['targets'], obligations_refuted=st['refuted'],
                                                                 incomplete=[dict(target=p_['target'], not_refuted=p_['missing'][:6], unregistered=p_['unregistered'][:3]) for p_ in st['problems']][:40])
                for p_ in st['problems']:
                    if p_['unregistered']:
                        undecided.append('clause refutation: failure names not registered as obligations: %s' % p_['unregistered'][:3])
            except Exception as ex:   # the self-test is supplementary evidence; it never decides the property
                vac['units'][uname]['clause_refutation'] = dict(error=str(ex)[:300])

    # ---- bounded stand-in (Kani): reported separately, never counted under obligations/discharged
    bounded, kani_cmd = [], ''
    if cfg.get('kani'):
        bounded, kani_cmd = run_kani(cfg['kani'], tier, repo)
        for b in bounded:
            if b['status'] == 'undecided':
                undecided.append('kani harness %s undecided (timeout / out of memory / build error): %s' % (b['harness'], (b.get('detail') or '')[-300:]))
    # ---- known findings
    kf = [f for f in known.get('findings', []) if f.get('property') == prop]
    real = []
    for (uname, ob, diags, g) in violations:
        hit = None
        for f in kf:
            if ob in f.get('obligations', []):
                hit = f
        if hit:
            known_hits.append((hit, ob))
        else:
            real.append((uname, ob, diags, g))

    # tainted obligations: undecided unless the witness finder shows the property really fails on the real code
    # notes that make only ONE function's obligations undecided (a resource limit there, or the function was isolated as a stub)
    # do not suppress a semantic failure of another, fully verified function
    soft = [x for x in undecided if x.startswith(('resource limit', 'isolated function'))]
    hard_und = [x for x in undecided if not x.startswith(('resource limit', 'isolated function'))]
    kani_fail = [b for b in bounded if b['status'] == 'failed']
    if tainted and not real and not undecided and not kani_fail:
        w = None
        if cfg.get('witness'):
            depth = 5 if cfg.get('witness') == 'alloc' else 4
            w = find_witness(cfg['witness'], prop, repo, depth + (1 if tier == 'thorough' else 0), seed)
        if w and w.get('found') and w.get('property') in (prop, 'panic'):
            seen = set()
            for (uname, k, fnk, fails, g) in tainted:
                for (ob, diags) in fails:
                    if ob in seen:
                        continue
                    seen.add(ob)
                    obligations[ob] = dict(g.obligations[ob], props=g.obligations[ob]['props'] + [prop])
                    real.append((uname, ob, diags, g))
            pre_witness = w
        else:
            fns = sorted({t[2] for t in tainted})
            undecided.append('obligations of %s in %s are not proved: the function fails obligation(s) %s tagged for other properties, and no failing input for %s was found%s'
                             % (prop, fns, sorted({ob for t in tainted for (ob, _) in t[3]}), prop, '' if cfg.get('witness') else ' (no witness harness for this property)'))
    # ---- BOUNDED STAND-IN for isolated functions: a function that could not be brought within the verifier's reach (outside the
    # subset, or its proof annotations no longer fit) leaves its obligations undecided. If the property has a witness finder, the
    # bounded search on the REAL crate (built from the tree under test, driven through its public API, compared with the property's
    # executable oracle) stands in for it: a failing history it finds is a genuine violation, replayable on the real code; finding
    # none proves nothing (the run stays undecided, exit 2). Labelled bounded, never counted under discharged.
    iso_fns = sorted({x.split('): ', 1)[-1].split(': ', 1)[0] for x in undecided if x.startswith('isolated function (its obligations are undecided)')})
    iso_witness = None
    if iso_fns and not real and not kani_fail and not hard_und and cfg.get('witness'):
        depth = 5 if cfg.get('witness') == 'alloc' else 4
        iso_witness = find_witness(cfg['witness'], prop, repo, depth + (1 if tier == 'thorough' else 0), seed)
        if iso_witness and iso_witness.get('found') and iso_witness.get('property') in (prop, 'panic'):
            for (uname_, g_) in [(un_, gg_) for (un_, gg_) in unit_gens if any(f_ in gg_.stubbed for f_ in iso_fns)][:1]:
                fn_ = [f_ for f_ in iso_fns if f_ in g_.stubbed][0]
                ob_ = '%s::%s::isolated(bounded stand-in)' % (uname_, fn_)
                obligations[ob_] = dict(props=[prop], fn=fn_, kind='bounded stand-in for a function outside the verifier\'s reach: witness search on the real crate (depth %d)' % depth,
                                        expr='the property\'s executable oracle holds on every history of the bounded search')
                g_.obligations.setdefault(ob_, obligations[ob_])
                diag_ = [dict(rendered='function %s was isolated (%s); the bounded witness search on the real crate found a failing history' % (fn_, '; '.join(x for x in undecided if fn_ in x)[:600]))]
                real.append((uname_, ob_, diag_, g_))
            pre_witness = iso_witness
    exit_code = 0
    lines = []
    for (hit, ob) in known_hits:
        lines.append('KNOWN-FINDING: property=%s %s (obligation %s)' % (prop, hit.get('what', ''), ob))
    witness = locals().get('pre_witness')
    if real and not hard_und:
        depth = 6 if tier == 'thorough' else 5
        if cfg.get('witness') in ('storage', 'misc'):
            depth = 5 if tier == 'thorough' else 4
        if cfg.get('witness') and witness is None:
            witness = find_witness(cfg['witness'], prop, repo, depth, seed)
        for (uname, ob, diags, g) in real:
            rp = os.path.join(EVID, 'replay', '%s-%s.json' % (prop, re.sub(r'[^A-Za-z0-9_.]+', '_', ob)))
            fn = obligations[ob]['fn']
            meta = [it for it in g.items if it['key'] == fn]
            src_text = ''
            if meta:
                a, b = meta[0]['gen_lines']
                src_text = '\n'.join(g.text.splitlines()[a - 1:b])
            rec = dict(property=prop, obligation=ob, kind=obligations[ob]['kind'], clause=obligations[ob]['expr'],
                       function=fn, source=(dict(file=meta[0]['file'], lines=list(meta[0]['lines'])) if meta else None),
                       verifier='verus 0.2026.09.13 (z3)', verifier_message='\n'.join(d['rendered'] for d in diags)[:6000],
                       generated_function_text=src_text[:8000],
                       witness_kind=cfg.get('witness'), witness=witness,
                       replay_cmd='./check %s --replay %s' % (prop, rp))
            with open(rp, 'w') as f:
                json.dump(rec, f, indent=1)
            tail = '' if (witness and witness.get('found')) else ' no-failing-input-found'
            lines.append('VIOLATION property=%s replay=%s%s' % (prop, rp, tail))
        exit_code = 1
    if kani_fail and not hard_und:
        for b in kani_fail:
            rp = os.path.join(EVID, 'replay', '%s-kani_%s.json' % (prop, b['harness']))
            with open(rp, 'w') as f:
                json.dump(dict(property=prop, obligation='kani::' + b['harness'], kind='bounded harness (CBMC)', bound=b['bound'],
                               verifier='kani 0.68 / cbmc 6.11', verifier_message=b.get('detail', ''),
                               replay_cmd='kani/run_kani.sh /repo kani/%s <outdir> 2400 %s   # re-runs the harness on the current tree; add --concrete-playback=print for a concrete trace' % (cfg['kani']['files'][0], b['harness'])), f, indent=1)
            lines.append('VIOLATION property=%s replay=%s no-failing-input-found' % (prop, rp))
        exit_code = 1
    if exit_code == 0 and undecided:
        exit_code = 2
    elif exit_code == 1 and hard_und:
        exit_code = 2
    if not obligations and not bounded and exit_code == 0:
        undecided.append('no obligations generated for this property')
        exit_code = 2

    wall = time.time() - t0
    level = cfg.get('level', 'proof')
    ev = dict(
        property_id=prop, tier=tier, seed=seed, level=level,
        coverage=dict(
            obligations=len(obligations), discharged=len(discharged),
            checker_cmd=' ; '.join(cmds),
            trusted_base=sorted(set(trusted)),
            samples=[dict(obligation=k, kind=v['kind'], clause=v['expr'][:300], discharged=(k in discharged)) for k, v in list(sorted(obligations.items()))[:400]],
            back_end='Verus 0.2026.09.13 -> Z3; no Kani obligations counted here',
            solver_time_ms=round(smt_ms, 1),
            per_function_ms={k: v for k, v in sorted(fn_ms.items()) if v >= 1.0},
            functions_under_contract=cov_items,
            normalisations_applied=sorted(set(cov_norms)),
            # a function may be under contract in another unit of the same property: report only what no unit covers
            not_under_contract=sorted(x for x in set(not_covered)
                                      if not any(x.startswith(c['file'] + ' :: ') and x.endswith('(lines %d-%d)' % tuple(c['lines'])) for c in cov_items)),
            vacuity_guard=vac,
            bounded=dict(note='BOUNDED stand-in (Kani/CBMC on the real unsafe code); not included in obligations/discharged', cmd=kani_cmd, harnesses=bounded) if bounded else None,
            explanation=cfg.get('explanation', ''),
            undecided=undecided,
            isolated_functions=notes,
            known_findings=[h.get('what') for (h, _) in known_hits],
            witness=witness,
        ),
        assumptions=COMMON_ASSUMPTIONS + cfg.get('assumptions', []),
        wall_s=round(wall, 2),
        violations=len(real) + len(kani_fail),
    )
    with open(os.path.join(EVID, prop + '.json'), 'w') as f:
        json.dump(ev, f, indent=1)
    for l in lines:
        print(l)
    for u_ in undecided:
        print('UNDECIDED: ' + u_)
    print('%s: %d/%d obligations discharged, %d violation(s), %d known, exit %d, %.1fs' % (prop, len(discharged), len(obligations), len(real), len(known_hits), exit_code, wall))
    return exit_code


if __name__ == '__main__':
    sys.exit(main(sys.argv))
