"""Small Rust lexer: enough to find item/expression boundaries reliably.

Token = (kind, text, start, end); kinds:
  ws, lcomment, bcomment, doc (/// //! /** */), str, char, life, ident, num, punct
Brackets are single-char punct tokens. Multi-char operators that matter for
boundary finding ('->', '=>', '::', '..', '..=', '&&', '||', '==', '!=', '<=', '>=')
are merged; '<' and '>' stay single so generic depth can be tracked where needed.
"""
import re

_ident = re.compile(r'[A-Za-z_][A-Za-z0-9_]*')
_num = re.compile(r'[0-9][0-9A-Za-z_]*(\.[0-9][0-9A-Za-z_]*)?')
_ops = ['..=', '...', '->', '=>', '::', '..', '&&', '||', '==', '!=', '<=', '>=',
        '+=', '-=', '*=', '/=', '|=', '&=', '^=', '%=']


class Tok:
    __slots__ = ('kind', 'text', 'start', 'end')

    def __init__(self, kind, text, start, end):
        self.kind, self.text, self.start, self.end = kind, text, start, end

    def __repr__(self):
        return 'Tok(%s,%r,%d)' % (self.kind, self.text, self.start)


def lex(src):
    toks = []
    i, n = 0, len(src)
    while i < n:
        c = src[i]
        if c in ' \t\r\n':
            j = i
            while j < n and src[j] in ' \t\r\n':
                j += 1
            toks.append(Tok('ws', src[i:j], i, j))
            i = j
            continue
        if src.startswith('//', i):
            j = src.find('\n', i)
            if j < 0:
                j = n
            text = src[i:j]
            kind = 'doc' if (text.startswith('///') and not text.startswith('////')) or text.startswith('//!') else 'lcomment'
            toks.append(Tok(kind, text, i, j))
            i = j
            continue
        if src.startswith('/*', i):
            depth, j = 1, i + 2
            while j < n and depth:
                if src.startswith('/*', j):
                    depth += 1
                    j += 2
                elif src.startswith('*/', j):
                    depth -= 1
                    j += 2
                else:
                    j += 1
            text = src[i:j]
            kind = 'doc' if (text.startswith('/**') and not text.startswith('/***') and text != '/**/') or text.startswith('/*!') else 'bcomment'
            toks.append(Tok(kind, text, i, j))
            i = j
            continue
        # raw strings / byte strings
        m = re.match(r'b?r(#*)"', src[i:i + 40])
        if m:
            hashes = m.group(1)
            close = '"' + hashes
            j = src.find(close, i + m.end())
            j = n if j < 0 else j + len(close)
            toks.append(Tok('str', src[i:j], i, j))
            i = j
            continue
        if c == '"' or (c == 'b' and src.startswith('b"', i)):
            j = i + (2 if c == 'b' else 1)
            while j < n and src[j] != '"':
                j += 2 if src[j] == '\\' else 1
            j += 1
            toks.append(Tok('str', src[i:j], i, j))
            i = j
            continue
        if c == "'":
            # char literal or lifetime
            m = re.match(r"'(\\.[^']*|[^'\\])'", src[i:i + 12])
            if m:
                j = i + m.end()
                toks.append(Tok('char', src[i:j], i, j))
                i = j
                continue
            m = _ident.match(src, i + 1)
            if m:
                toks.append(Tok('life', src[i:m.end()], i, m.end()))
                i = m.end()
                continue
        m = _ident.match(src, i)
        if m:
            toks.append(Tok('ident', m.group(0), i, m.end()))
            i = m.end()
            continue
        m = _num.match(src, i)
        if m:
            # avoid eating `0..n`
            text = m.group(0)
            if '.' in text and src.startswith('..', i + text.index('.')):
                text = text[:text.index('.')]
            toks.append(Tok('num', text, i, i + len(text)))
            i += len(text)
            continue
        for op in _ops:
            if src.startswith(op, i):
                toks.append(Tok('punct', op, i, i + len(op)))
                i += len(op)
                break
        else:
            toks.append(Tok('punct', c, i, i + 1))
            i += 1
    return toks


OPEN = {'(': ')', '[': ']', '{': '}'}
CLOSE = {')': '(', ']': '[', '}': '{'}


def code(toks):
    """indices of tokens that are code (not ws/comments/docs)"""
    return [k for k, t in enumerate(toks) if t.kind not in ('ws', 'lcomment', 'bcomment', 'doc')]


def match_close(toks, k):
    """toks[k] is an opening bracket; return index of its closing bracket."""
    depth = 0
    for j in range(k, len(toks)):
        t = toks[j]
        if t.kind == 'punct':
            if t.text in OPEN:
                depth += 1
            elif t.text in CLOSE:
                depth -= 1
                if depth == 0:
                    return j
    raise ValueError('unbalanced bracket at %d' % toks[k].start)


def squash(s):
    """whitespace-insensitive form used for matching"""
    return re.sub(r'\s+', '', s)
