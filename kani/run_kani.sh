#!/bin/bash
# usage: run_kani.sh <repo> <harness-file[:harness-file..] to append to storages.rs> <outdir> <timeout-secs> harness...
# Copies the crate to a scratch dir, appends the cfg(kani) harness module, runs each harness, writes <outdir>/<harness>.log
REPO=$1; HF=$2; OUT=$3; TMO=$4; shift 4
D=$(mktemp -d /var/tmp/specs-verif.kani.XXXXXX)
trap 'rm -rf "$D"' EXIT
mkdir -p "$OUT"
cp -r "$REPO/src" "$REPO/Cargo.toml" "$REPO/Cargo.lock" "$REPO/specs-derive" "$D/" 2>/dev/null
for f in $(echo "$HF" | tr ":" " "); do cat "$f" >> "$D/src/storage/storages.rs"; done
python3 - "$D/Cargo.toml" <<'PY'
import re,sys
p=sys.argv[1]; s=open(p).read()
# keep package / dependencies / features only: examples, benches, tests and dev-dependencies are not part of the scratch copy
out=[]; keep=True
for line in s.splitlines():
    m=re.match(r'^\[+([^\]]+)\]+', line)
    if m:
        sec=m.group(1).strip()
        keep = sec in ('package','dependencies','features') or sec.startswith('package.') 
    if keep: out.append(line)
txt='\n'.join(out)+'\n'
txt=txt.replace('autobenches = false','autobenches = false\nautoexamples = false\nautotests = false')
open(p,'w').write(txt)
PY
cd "$D" || exit 2
export CARGO_NET_OFFLINE=true
pids=()
for h in "$@"; do
  ( CARGO_TARGET_DIR="$D/target-$h" timeout "$TMO" cargo kani --no-default-features -Z function-contracts -Z stubbing --harness "$h" > "$OUT/$h.log" 2>&1; echo "exit=$?" >> "$OUT/$h.log" ) &
  pids+=($!)
done
for p in "${pids[@]}"; do wait $p; done
