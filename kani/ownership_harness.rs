// Bounded Kani harnesses for C08 (every component value is handed back or destroyed exactly once).
// A destructor ledger: each token carries an id; its Drop impl counts in DROPS[id]; values handed back to the
// "caller" are recorded in RETURNED[id] and forgotten. From ANY well-formed state of a storage kind (<= 3 slots),
// one arbitrary operation, then `clean` with the true mask (what MaskedStorage::clear / Drop do): afterwards
// every token that was ever moved in has DROPS + RETURNED == 1 — never both, never twice, never leaked.
// CBMC's pointer checks (use after free, double free, out-of-bounds) are on for the real unsafe code underneath.
#[cfg(kani)]
mod verif_kani_own {
    use super::*;
    use hibitset::BitSetLike;

    const N: usize = 3;
    static mut DROPS: [u8; 4] = [0; 4];
    static mut RETURNED: [u8; 4] = [0; 4];

    struct Tok(u8);
    impl Drop for Tok {
        fn drop(&mut self) {
            // SAFETY: single-threaded harness
            unsafe { DROPS[self.0 as usize] += 1; }
        }
    }
    fn hand_back(t: Tok) {
        unsafe { RETURNED[t.0 as usize] += 1; }
        core::mem::forget(t);
    }

    #[derive(Clone, Copy)]
    struct Mask4(u8);
    impl BitSetLike for Mask4 {
        fn layer3(&self) -> usize { if self.0 != 0 { 1 } else { 0 } }
        fn layer2(&self, i: usize) -> usize { if i == 0 && self.0 != 0 { 1 } else { 0 } }
        fn layer1(&self, i: usize) -> usize { if i == 0 && self.0 != 0 { 1 } else { 0 } }
        fn layer0(&self, i: usize) -> usize { if i == 0 { self.0 as usize } else { 0 } }
        fn contains(&self, i: u32) -> bool { i < 4 && (self.0 >> i) & 1 == 1 }
    }

    /// symbolic prefix of inserts (token k goes to a symbolic free index), one symbolic operation, clean, ledger check
    fn scenario<S: UnprotectedStorage<Tok> + Default>() {
        let mut s = S::default();
        let mut mask: u8 = 0;
        let mut made: [bool; 4] = [false; 4];
        let n: usize = kani::any();
        kani::assume(n <= 2);
        let mut k = 0usize;
        while k < 2 {
            if k < n {
                let id: u32 = kani::any();
                kani::assume((id as usize) < N && (mask >> id) & 1 == 0);
                unsafe { s.insert(id, Tok(k as u8)) };
                made[k] = true;
                mask |= 1 << id;
            }
            k += 1;
        }
        // one arbitrary operation
        let id: u32 = kani::any();
        kani::assume((id as usize) < N);
        let present = (mask >> id) & 1 == 1;
        let op: u8 = kani::any();
        kani::assume(op < 4);
        match (op, present) {
            (0, false) => { unsafe { s.insert(id, Tok(2)) }; made[2] = true; mask |= 1 << id; }
            (1, true) => { let t = unsafe { s.remove(id) }; hand_back(t); mask &= !(1 << id); }
            (2, true) => { unsafe { s.drop(id) }; mask &= !(1 << id); }
            (3, true) => {
                // overwrite: the old value is handed back (Storage::insert on a present entity)
                let mut v = Tok(3); made[3] = true;
                let mut r = unsafe { s.get_mut(id) };
                core::mem::swap(&mut v, crate::storage::AccessMut::access_mut(&mut r));
                hand_back(v);
            }
            _ => {}
        }
        unsafe { s.clean(Mask4(mask)) };
        drop(s);
        let mut t = 0usize;
        while t < 4 {
            let total = unsafe { DROPS[t] + RETURNED[t] };
            if made[t] { assert!(total == 1); } else { assert!(total == 0); }
            t += 1;
        }
    }

    #[kani::proof]
    #[kani::unwind(5)]
    fn own_vec() { scenario::<VecStorage<Tok>>(); }

    #[kani::proof]
    #[kani::unwind(5)]
    fn own_dense() { scenario::<DenseVecStorage<Tok>>(); }

    /// zero-sized tokens in the null storage: only the number of destructor runs can be observed
    static mut ZDROPS: u8 = 0;
    struct Z;
    impl Drop for Z { fn drop(&mut self) { unsafe { ZDROPS += 1; } } }
    #[kani::proof]
    #[kani::unwind(5)]
    fn own_null() {
        let mut s = NullStorage::<Z>(PhantomData);
        let mut mask: u8 = 0;
        let mut inserted: u8 = 0;
        let mut returned: u8 = 0;
        let mut k = 0;
        while k < 3 {
            let id: u32 = kani::any();
            kani::assume((id as usize) < N);
            let present = (mask >> id) & 1 == 1;
            let op: u8 = kani::any();
            kani::assume(op < 3);
            match (op, present) {
                (0, false) => { unsafe { s.insert(id, Z) }; inserted += 1; mask |= 1 << id; }
                (1, true) => { let z = unsafe { s.remove(id) }; core::mem::forget(z); returned += 1; mask &= !(1 << id); }
                (2, true) => { unsafe { s.drop(id) }; mask &= !(1 << id); }
                _ => {}
            }
            k += 1;
        }
        unsafe { s.clean(Mask4(mask)) };
        assert!(unsafe { ZDROPS } + returned == inserted);
    }

    // ---- MaskedStorage level: drain visits a symbolic subset, then the storage is dropped
    impl crate::world::Component for Tok { type Storage = VecStorage<Tok>; }
    #[kani::proof]
    #[kani::unwind(5)]
    fn own_drain() {
        use crate::join::Join;
        let mut ms = crate::storage::MaskedStorage::<Tok>::new(VecStorage::default());
        let mut made: [bool; 4] = [false; 4];
        let mut k = 0u32;
        while k < 2 {
            let put: bool = kani::any();
            if put {
                // what Storage::not_present_insert does (proved in the Verus layer): raw insert + mask bit
                unsafe { ms.inner.insert(k, Tok(k as u8)) };
                ms.mask.add(k);
                made[k as usize] = true;
            }
            k += 1;
        }
        {
            let d = crate::storage::drain::Drain { data: &mut ms };
            // SAFETY: get is only called for ids in the returned mask, once each
            let (mask, mut value) = unsafe { Join::open(d) };
            let mut i = 0u32;
            while i < 2 {
                let visit: bool = kani::any();
                if visit && hibitset::BitSetLike::contains(&mask, i) {
                    let t = unsafe { <crate::storage::drain::Drain<Tok> as Join>::get(&mut value, i) };
                    hand_back(t);
                }
                i += 1;
            }
        }
        drop(ms);
        let mut t = 0usize;
        while t < 4 {
            let total = unsafe { DROPS[t] + RETURNED[t] };
            if made[t] { assert!(total == 1); } else { assert!(total == 0); }
            t += 1;
        }
    }
}
