// Bounded Kani harnesses for the unsafe storage kinds (appended under cfg(kani) to a scratch copy of
// src/storage/storages.rs, so private fields are visible). BOUNDED stand-in: never counted as proved.
//
// Conformance (C04 kinds): starting from the empty storage, every sequence of at most N_OPS raw operations over
// indices < N_IDX that respects the trait's preconditions is compared, operation by operation, with a plain
// array model: `get` returns the model value, `get_mut` lets exactly that slot change, `remove` returns the model
// value; afterwards EVERY modelled slot is re-read (whole-view frame), slices agree with the model.
#[cfg(kani)]
mod verif_kani {
    use super::*;
    use hibitset::BitSetLike;

    /// a 4-bit mask implementing hibitset's BitSetLike without its heap layers (keeps CBMC's problem small)
    #[derive(Clone, Copy)]
    struct Mask4(u8);
    impl BitSetLike for Mask4 {
        fn layer3(&self) -> usize { if self.0 != 0 { 1 } else { 0 } }
        fn layer2(&self, i: usize) -> usize { if i == 0 && self.0 != 0 { 1 } else { 0 } }
        fn layer1(&self, i: usize) -> usize { if i == 0 && self.0 != 0 { 1 } else { 0 } }
        fn layer0(&self, i: usize) -> usize { if i == 0 { self.0 as usize } else { 0 } }
        fn contains(&self, i: u32) -> bool { i < 4 && (self.0 >> i) & 1 == 1 }
    }

    const N_IDX: u32 = 4;

    fn check_all<S: UnprotectedStorage<u16>>(s: &S, model: &[Option<u16>; 4]) {
        let mut i = 0u32;
        while i < N_IDX {
            if let Some(v) = model[i as usize] {
                // SAFETY: i was inserted and not removed
                assert!(unsafe { *s.get(i) } == v);
            }
            i += 1;
        }
    }

    /// one raw operation with symbolic arguments, checked against the array model (returns nothing: asserts inside)
    fn step<S: UnprotectedStorage<u16>>(s: &mut S, model: &mut [Option<u16>; 4]) {
        let id: u32 = kani::any();
        kani::assume(id < N_IDX);
        let op: u8 = kani::any();
        kani::assume(op < 4);
        match (op, model[id as usize]) {
            (0, None) => {
                let v: u16 = kani::any();
                unsafe { s.insert(id, v) };
                model[id as usize] = Some(v);
            }
            (1, Some(v)) => {
                let got = unsafe { s.remove(id) };
                assert!(got == v);
                model[id as usize] = None;
            }
            (2, Some(v)) => {
                let w: u16 = kani::any();
                let mut r = unsafe { s.get_mut(id) };
                assert!(*r == v);
                *crate::storage::AccessMut::access_mut(&mut r) = w;
                model[id as usize] = Some(w);
            }
            (3, Some(v)) => {
                assert!(unsafe { *s.get(id) } == v);
            }
            _ => {}
        }
        check_all(&*s, &*model);
    }

    /// ANY well-formed dense storage with at most 3 elements over indices < N_IDX (all orders of the dense array)
    fn any_dense() -> (DenseVecStorage<u16>, [Option<u16>; 4]) { any_dense_b(3, N_IDX as usize) }
    fn any_dense_b(max_n: usize, max_len: usize) -> (DenseVecStorage<u16>, [Option<u16>; 4]) {
        let mut s = DenseVecStorage::<u16>::default();
        let mut model: [Option<u16>; 4] = [None; 4];
        let n: usize = kani::any();
        kani::assume(n <= max_n);
        let len: usize = kani::any();
        kani::assume(len <= max_len);
        s.data_id.reserve(N_IDX as usize);
        // SAFETY: MaybeUninit elements need no initialisation; capacity reserved above
        unsafe { s.data_id.set_len(len) };
        let mut k = 0usize;
        while k < 3 {
            if k < n {
                let e: u32 = kani::any();
                kani::assume((e as usize) < len && model[e as usize].is_none());
                let v: u16 = kani::any();
                s.entity_id.push(e);
                s.data.push(SyncUnsafeCell::new(v));
                s.data_id[e as usize] = MaybeUninit::new(k as Index);
                model[e as usize] = Some(v);
            }
            k += 1;
        }
        (s, model)
    }

    fn dense_invariant(s: &DenseVecStorage<u16>, model: &[Option<u16>; 4]) {
        let mut n = 0usize;
        let mut i = 0usize;
        while i < 4 { if model[i].is_some() { n += 1; } i += 1; }
        assert!(s.data.len() == n && s.entity_id.len() == n);
        let mut d = 0usize;
        while d < 4 {
            if d < n {
                let e = s.entity_id[d];
                assert!(e < N_IDX && model[e as usize].is_some());
                assert!((e as usize) < s.data_id.len());
                // SAFETY: e is stored, so its dense index was written
                assert!(unsafe { s.data_id[e as usize].assume_init() } as usize == d);
                // the dense slice is a permutation of the stored values
                assert!(s.as_slice()[d] == model[e as usize].unwrap());
            }
            d += 1;
        }
    }

    /// ANY well-formed VecStorage: a vector of symbolic length whose occupied slots are initialised
    fn any_vec() -> (VecStorage<u16>, [Option<u16>; 4]) { any_vec_b(N_IDX as usize) }
    fn any_vec_b(max_len: usize) -> (VecStorage<u16>, [Option<u16>; 4]) {
        let mut s = VecStorage::<u16>::default();
        let mut model: [Option<u16>; 4] = [None; 4];
        let len: usize = kani::any();
        kani::assume(len <= max_len);
        let mut i = 0usize;
        while i < N_IDX as usize {
            if i < len {
                let occupied: bool = kani::any();
                if occupied {
                    let v: u16 = kani::any();
                    s.0.push(SyncUnsafeCell::new(MaybeUninit::new(v)));
                    model[i] = Some(v);
                } else {
                    s.0.push(SyncUnsafeCell::new(MaybeUninit::uninit()));
                }
            }
            i += 1;
        }
        (s, model)
    }

    /// ANY well-formed DefaultVecStorage: unoccupied slots inside the vector hold Default
    fn any_default_vec() -> (DefaultVecStorage<u16>, [Option<u16>; 4]) { any_default_vec_b(N_IDX as usize) }
    fn any_default_vec_b(max_len: usize) -> (DefaultVecStorage<u16>, [Option<u16>; 4]) {
        let mut s = DefaultVecStorage::<u16>::default();
        let mut model: [Option<u16>; 4] = [None; 4];
        let len: usize = kani::any();
        kani::assume(len <= max_len);
        let mut i = 0usize;
        while i < N_IDX as usize {
            if i < len {
                let occupied: bool = kani::any();
                if occupied {
                    let v: u16 = kani::any();
                    s.0.push(SyncUnsafeCell::new(v));
                    model[i] = Some(v);
                } else {
                    s.0.push(SyncUnsafeCell::new(0));
                }
            }
            i += 1;
        }
        (s, model)
    }

    fn mask_of(model: &[Option<u16>; 4]) -> Mask4 {
        let mut b = 0u8;
        let mut i = 0u32;
        while i < N_IDX {
            if model[i as usize].is_some() { b |= 1 << i; }
            i += 1;
        }
        Mask4(b)
    }

    // ---- inductive step harnesses: arbitrary well-formed state, ONE arbitrary operation, contract + invariant afterwards
    #[kani::proof]
    #[kani::unwind(6)]
    fn kdense_step() {
        let (mut s, mut model) = any_dense();
        dense_invariant(&s, &model);
        check_all(&s, &model);
        step(&mut s, &mut model);
        dense_invariant(&s, &model);
    }

    /// the same step from every well-formed state with at most 2 elements over indices < 3 (fast enough for the quick tier)
    #[kani::proof]
    #[kani::unwind(6)]
    fn kdense_small() {
        let (mut s, mut model) = any_dense_b(2, 3);
        dense_invariant(&s, &model);
        let id: u32 = kani::any();
        kani::assume(id < 3);
        let op: u8 = kani::any();
        kani::assume(op < 2);
        match (op, model[id as usize]) {
            (0, None) => { let v: u16 = kani::any(); unsafe { s.insert(id, v) }; model[id as usize] = Some(v); }
            (1, Some(v)) => { let got = unsafe { s.remove(id) }; assert!(got == v); model[id as usize] = None; }
            _ => {}
        }
        check_all(&s, &model);
        dense_invariant(&s, &model);
    }

    #[kani::proof]
    #[kani::unwind(6)]
    fn kdense_clean() {
        let (mut s, model) = any_dense();
        unsafe { s.clean(mask_of(&model)) };
        assert!(s.data.len() == 0 && s.entity_id.len() == 0 && s.data_id.len() == 0);
    }

    #[kani::proof]
    #[kani::unwind(6)]
    fn kvec_step() {
        let (mut s, mut model) = any_vec();
        check_all(&s, &model);
        step(&mut s, &mut model);
        // index-addressed slice holds the component at every occupied index
        let sl = s.as_slice();
        let mut i = 0usize;
        while i < 4 {
            if let Some(v) = model[i] { assert!(i < sl.len()); assert!(unsafe { sl[i].assume_init() } == v); }
            i += 1;
        }
        unsafe { s.clean(mask_of(&model)) };
    }

    #[kani::proof]
    #[kani::unwind(6)]
    fn kdefault_step() {
        let (mut s, mut model) = any_default_vec();
        check_all(&s, &model);
        step(&mut s, &mut model);
        // occupied slots hold the component, unoccupied slots inside the vector hold Default
        let sl = s.as_slice();
        let mut i = 0usize;
        while i < 4 {
            match model[i] {
                Some(v) => { assert!(i < sl.len()); assert!(sl[i] == v); }
                None => { if i < sl.len() { assert!(sl[i] == 0); } }
            }
            i += 1;
        }
        unsafe { s.clean(mask_of(&model)) };
    }

    /// one insert or remove over indices < 3 (quick tier)
    fn step_small<S: UnprotectedStorage<u16>>(s: &mut S, model: &mut [Option<u16>; 4]) {
        let id: u32 = kani::any();
        kani::assume(id < 3);
        let op: u8 = kani::any();
        kani::assume(op < 2);
        match (op, model[id as usize]) {
            (0, None) => { let v: u16 = kani::any(); unsafe { s.insert(id, v) }; model[id as usize] = Some(v); }
            (1, Some(v)) => { let got = unsafe { s.remove(id) }; assert!(got == v); model[id as usize] = None; }
            _ => {}
        }
        check_all(&*s, &*model);
    }

    #[kani::proof]
    #[kani::unwind(6)]
    fn kvec_small() {
        let (mut s, mut model) = any_vec_b(2);
        step_small(&mut s, &mut model);
        unsafe { s.clean(mask_of(&model)) };
    }

    #[kani::proof]
    #[kani::unwind(6)]
    fn kdefault_small() {
        let (mut s, mut model) = any_default_vec_b(2);
        step_small(&mut s, &mut model);
        let sl = s.as_slice();
        let mut i = 0usize;
        while i < 4 {
            match model[i] {
                Some(v) => { assert!(i < sl.len()); assert!(sl[i] == v); }
                None => { if i < sl.len() { assert!(sl[i] == 0); } }
            }
            i += 1;
        }
        unsafe { s.clean(mask_of(&model)) };
    }
}
